#!/usr/bin/env python3
"""Writes /verif/MANIFEST.json from the table below (kept in one place so it stays consistent)."""
import json, os, subprocess
VERIF = os.path.dirname(os.path.dirname(os.path.abspath(__file__)))

def hook_commits():
    out = subprocess.run(["git", "-C", "/repo", "log", "--format=%H %s"], stdout=subprocess.PIPE, text=True).stdout
    return [l.split()[0] for l in out.splitlines() if " verif hook" in l]

COMMON_NOTE = "Trusted: the harness payload type, ledger and rule checker; the installed nightly toolchain; held = held on the executions counted in the evidence file, bounds as listed there."

CHECKS = {
 "C01": dict(level="exploration", ref="6 C01",
   technique="runtime monitor: reachability oracle on destructor events + canary dereference sweep over exhaustive small shapes and seeded random histories (native+MonAlloc, AddressSanitizer, Miri)",
   text="Every destructor start is checked online against an independent handle/adoption ledger (the destroyed object must be unreachable from program-held handles) and after every operation every reachable object is dereferenced through every handle. Exhaustive over 2-object shapes x drop orders x Weak placements, sampled 3-object shapes, structured families, seeded random histories; ASan and Miri replays turn a premature free into a report."),
 "C02": dict(level="exploration", ref="6 C02",
   technique="runtime monitor + sanitizers: exactly-once destructor oracle, checking/quarantining allocator, moved-out-field poison hook, AddressSanitizer, Miri",
   text="Exactly-once oracle on destructor starts, allocator oracle for double/invalid free and write-after-free (quarantine), poison of moved-out fields (H2) so stale table reads panic deterministically, plus AddressSanitizer and Miri on the same histories; process deaths are attributed to the history in flight and confirmed in isolation."),
 "C03": dict(level="exploration", ref="6 C03",
   technique="runtime monitor: trace specification (required-set lower bound at every top-level and nested handle drop) checked on destructor event order",
   text="At every handle drop the ledger computes the set the property requires to be destroyed (zero count, or forward closure over recorded adoptions with every handle explained) and demands End events for all of it before that drop returns; fully recorded shapes enumerated to 3 objects and sampled at 4, structured families with every choice of last outside handle."),
 "C04": dict(level="exploration", ref="6 C04",
   technique="runtime monitor: origin-tagging counting allocator (exact conservation per history) + LeakSanitizer and Miri leak checker on leak-free-predicted batches",
   text="MonAlloc attributes every block to library or harness; per object the allocation must be live exactly while the object is alive or Weak handles remain, and after a teardown phase in which everything dies library-origin live blocks/bytes must be zero; all three teardown paths must have been observed. LSan and Miri's leak checker are independent second opinions."),
 "C05": dict(level="exploration", ref="6 C05",
   technique="runtime monitor: Weak observation oracle after every step and from inside payload destructors, against the ledger",
   text="After every operation every Weak handle (program-held or stored in live values) must report the ledger's counts (0/0 after destruction), every upgrade result is checked (same allocation iff alive) and every dying value probes all Weak handles it owns from inside its destructor, on all teardown paths; ASan/Miri watch Weak operations after collection."),
 "C06": dict(level="exploration", ref="6 C06",
   technique="runtime monitor: count/identity oracle (strong_count, weak_count, ptr_eq, as_ptr) against the handle ledger after every step",
   text="All four count functions, as_ptr and pairwise ptr_eq are compared with the ledger for every live object after every operation, including unreachable-but-uncollected objects read through stored handles by reference, across adoptions and partial collections."),
 "C07": dict(level="translation_validation", ref="6 C07",
   technique="differential execution: same generated programs on cactusref::Rc and std::rc::Rc, transcript comparison incl. destructor order",
   text="The same interpreter source is instantiated on cactusref and on std::rc; transcripts (every call result, counts, pointer-equality relations, formatting/hash/comparison, interleaved destructor log with in-destructor probes) of seeded adoption-free programs must be identical."),
 "C08": dict(level="exploration", ref="6 C08",
   technique="runtime monitor: link-table snapshots (hook H1) compared with the adoption ledger after every step and at every destructor start",
   text="Every live object's table is snapshotted through H1 and compared with the ledger (forward/backward multiplicity per peer, self records, no zero entries, no entry naming a dead or unknown allocation) after every operation and when user code first runs during a teardown; histories include unmatched/excess unadopts, parallel adoptions, elided unadopts and address reuse."),
 "C09": dict(level="exploration", ref="6 C09",
   technique="runtime monitor: replay of recorded call sequences under K perturbed heap layouts, per-step digest comparison; table orders observed via H1",
   text="Each fully recorded history is executed once and its call sequence replayed under K layouts (scatter allocator seeds, plain, quarantine; ASan; Miri); per-operation destroyed sets and all counts must agree. The run reports how many histories actually saw >= 2 distinct table iteration orders and is inconclusive if too few did."),
 "C10": dict(level="exploration", ref="6 C10",
   technique="runtime monitor: scripted re-entrant payload destructors with all C01-C06 oracles armed during nested calls",
   text="Destructors of every member of small shapes run action scripts (create/clone/drop incl. last handle of another group, adopt, unadopt, downgrade, upgrade of live objects and dying peers) before or after releasing their own handles, on every teardown path; every rule stays armed inside nested calls and any panic is a violation."),
 "C11": dict(level="fault_enumeration", ref="6 C11",
   technique="fault injection: one scripted destructor panic per history at every member position / teardown path, exactly-once + liveness + Weak oracles, allocator and sanitizers",
   text="One panic is injected in the destructor of a chosen object (every index of enumerated and structured shapes, before/after it released its handles); the panic must propagate, no destructor may start twice, nothing reachable may die, Weak handles must report dead, no double free; random operations on the survivors follow."),
 "C12": dict(level="exploration", ref="6 C12",
   technique="runtime monitor + sanitizers: consuming calls on linked objects, H1 snapshots must not name given-up allocations, exactly-once value oracle, ASan/Miri on later drops",
   text="try_unwrap, make_mut (3 branches), get_mut, raw round trips and increment/decrement_strong_count are called on objects that adopted or were adopted, with/without Weak handles, followed by further drops of the former peers; tables, values (moved/cloned exactly once) and all later operations are checked."),
 "C13": dict(level="exploration", ref="6 C13",
   technique="runtime monitor: C01/C02 oracles on histories that elide unadopt; known finding matched by cause signature",
   text="Histories that are well-formed except for taken-but-not-unadopted handles are run with the premature-destruction and memory rules armed. The pinned algorithm trusts stale records by design (known finding, matched by an exact cause signature evaluated on the ledger); any other violation is reported."),
 "C14": dict(level="exploration", ref="6 C14",
   technique="runtime monitor: trace-invocation counter (H3) and library-origin allocation counter sampled around clone/drop of unlinked objects",
   text="Around every clone/drop of a handle to an object with no recorded adoption in either direction (never adopted, fully unadopted again, merely stored inside adopted objects) the number of traces and of library heap allocations must not advance (window closes at the first user destructor)."),
 "C15": dict(level="exploration", ref="6 C15",
   technique="runtime monitor: bounded scaling experiment in child processes on 64/128 KiB stacks with trace visit counters (H3) and destructor nesting depth",
   text="Groups of N up to 3*10^5 objects (ring, ring+chords, clique, self-adopters mixed in) built by moving handles are collected on a small-stack thread in a child process; the child must complete, counters must satisfy the linear bounds computed from the graph, nesting depth must stay 1. 'Any size' is restated as this bounded experiment."),
 "C16": dict(level="exploration", ref="6 C16",
   technique="runtime monitor: exit status and output markers of one child process per dead-handle scenario (clone must abort, drop must be inert)",
   text="Per scenario one child process: a member destructor clones (resp. drops) a stored handle whose target is already destroyed during the collection; after BEFORE-CLONE the child must die by SIGILL/SIGABRT without AFTER-CLONE (Miri: program aborted); the drop-only variant must complete with all monitors silent."),
}
for _c in CHECKS.values():
    _c.setdefault("note", COMMON_NOTE)

NOT_YET = {}

def main():
    checks = []
    for pid in sorted(CHECKS):
        c = CHECKS[pid]
        checks.append({
            "property_id": pid,
            "quick_cmd": "python3 driver/run_check.py %s --tier quick" % pid,
            "thorough_cmd": "python3 driver/run_check.py %s --tier thorough" % pid,
            "evidence_file": "evidence/%s.json" % pid,
            "replay_cmd_template": "python3 driver/run_check.py replay {path}",
            "engine": "vh",
            "level_claimed": {"category": c["level"], "text": c["text"], "design_ref": "DESIGN.md section " + c["ref"]},
            "level_note": c["note"],
            "technique": c["technique"],
        })
    allp = ["C%02d" % i for i in range(1, 17)]
    na = [{"property_id": p, "reason": NOT_YET.get(p, "check not built yet in this revision of /verif (planned, see DESIGN.md section 6)")} for p in allp if p not in CHECKS]
    m = {
        "version": 1,
        "setup_cmd": "python3 driver/run_check.py build e1 e2 e3",
        "hooks": {
            "guard": "cargo features `verif` and `verif-poison` of the cactusref crate (off by default)",
            "enable": "the harness crate depends on cactusref by path (/repo) with features verif (+ verif-poison for engines E1/E2); cargo rebuilds /repo's working tree on every check",
            "baseline_off_cmd": "cd /repo && cargo test --workspace --no-fail-fast --offline",
            "source_commits": hook_commits(),
            "add_only": True,
        },
        "engines": [
            {"name": "vh", "path": "harness/", "serves_properties": sorted(CHECKS), "kind_free_text": "Rust worker binary: history interpreter over the real cactusref crate + reference ledger + online rule checker; built three ways (E1 native+MonAlloc+poison, E2 AddressSanitizer, E3 Miri)"},
            {"name": "driver", "path": "driver/run_check.py", "serves_properties": sorted(CHECKS), "kind_free_text": "python3 driver: builds engines, shards workloads over 16 cores, contains crashes, matches known findings, writes evidence"},
        ],
        "checks": checks,
        "not_applicable": na,
        "notes": "Technique family: runtime monitoring and sanitizers. See DESIGN.md. Known findings: known_findings.json.",
    }
    with open(os.path.join(VERIF, "MANIFEST.json"), "w") as f:
        json.dump(m, f, indent=1)
    print("MANIFEST.json written: %d checks, %d not_applicable" % (len(checks), len(na)))

if __name__ == "__main__":
    main()
