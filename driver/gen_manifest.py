#!/usr/bin/env python3
"""Writes /verif/MANIFEST.json from the table below (kept in one place so it stays consistent)."""
import json, os, subprocess
VERIF = os.path.dirname(os.path.dirname(os.path.abspath(__file__)))

def hook_commits():
    out = subprocess.run(["git", "-C", "/repo", "log", "--format=%H %s"], stdout=subprocess.PIPE, text=True).stdout
    return [l.split()[0] for l in out.splitlines() if " verif hook" in l]

CHECKS = {
 "C01": dict(level="exploration", technique="runtime monitor: reachability oracle on destructor events + canary dereference sweep, exhaustive small shapes and seeded random histories (native + MonAlloc, ASan, Miri)",
   text="Every destructor start is checked online against an independent handle/adoption ledger (the destroyed object must be unreachable from program-held handles), and after every operation every reachable object is dereferenced through every handle. Exhaustive over all 2-object shapes/drop orders, sampled 3-object shapes, plus seeded random histories; held = held on the executions counted in the evidence file.",
   note="Trusted: the ledger and payload type of the harness; bounds: <=7 objects, multiplicity <=2 in enumerations, histories <=~120 ops.", ref="6 C01"),
}

NOT_YET = {}

def main():
    checks = []
    for pid in sorted(CHECKS):
        c = CHECKS[pid]
        checks.append({
            "property_id": pid,
            "quick_cmd": "python3 driver/run_check.py %s --tier quick" % pid,
            "thorough_cmd": "python3 driver/run_check.py %s --tier thorough" % pid,
            "evidence_file": "evidence/%s.json" % pid,
            "replay_cmd_template": "python3 driver/run_check.py replay {path}",
            "engine": "vh",
            "level_claimed": {"category": c["level"], "text": c["text"], "design_ref": "DESIGN.md section " + c["ref"]},
            "level_note": c["note"],
            "technique": c["technique"],
        })
    allp = ["C%02d" % i for i in range(1, 17)]
    na = [{"property_id": p, "reason": NOT_YET.get(p, "check not built yet in this revision of /verif (planned, see DESIGN.md section 6)")} for p in allp if p not in CHECKS]
    m = {
        "version": 1,
        "setup_cmd": "python3 driver/run_check.py build e1 e2 e3",
        "hooks": {
            "guard": "cargo features `verif` and `verif-poison` of the cactusref crate (off by default)",
            "enable": "the harness crate depends on cactusref by path (/repo) with features verif (+ verif-poison for engines E1/E2); cargo rebuilds /repo's working tree on every check",
            "baseline_off_cmd": "cd /repo && cargo test --workspace --no-fail-fast --offline",
            "source_commits": hook_commits(),
            "add_only": True,
        },
        "engines": [
            {"name": "vh", "path": "harness/", "serves_properties": sorted(CHECKS), "kind_free_text": "Rust worker binary: history interpreter over the real cactusref crate + reference ledger + online rule checker; built three ways (E1 native+MonAlloc+poison, E2 AddressSanitizer, E3 Miri)"},
            {"name": "driver", "path": "driver/run_check.py", "serves_properties": sorted(CHECKS), "kind_free_text": "python3 driver: builds engines, shards workloads over 16 cores, contains crashes, matches known findings, writes evidence"},
        ],
        "checks": checks,
        "not_applicable": na,
        "notes": "Technique family: runtime monitoring and sanitizers. See DESIGN.md. Known findings: known_findings.json.",
    }
    with open(os.path.join(VERIF, "MANIFEST.json"), "w") as f:
        json.dump(m, f, indent=1)
    print("MANIFEST.json written: %d checks, %d not_applicable" % (len(checks), len(na)))

if __name__ == "__main__":
    main()
