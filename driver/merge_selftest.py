#!/usr/bin/env python3
"""Merge self-test results into selftest/<dir>.json and seeded/<id>/meta.json.

usage: merge_selftest.py <dir: seeded|mutants> <source> [<source> ...]

A source is a JSON file written by selftest.py or the console log of a selftest.py run (one line
per (change, property): `<name> <prop> CAUGHT|MISSED rc=<n> <secs>s <first report>`). Later sources
override earlier ones for the same (change, property). Nothing is invented: a change that occurs in
no source does not appear in the result.
"""
import json, os, re, sys

VERIF = os.path.dirname(os.path.dirname(os.path.abspath(__file__)))
LINE = re.compile(r"^(\S+)\s+(C\d\d) (CAUGHT|MISSED) rc=(-?\d+) (\d+)s ?(.*)$")


def rows_of(src):
    if src.endswith(".json"):
        return [r for r in json.load(open(src))["rows"] if "property" in r]
    rows = []
    for l in open(src, errors="replace"):
        m = LINE.match(l.rstrip("\n"))
        if m:
            name, prop, verdict, rc, secs, rest = m.groups()
            rows.append({"name": name, "property": prop, "fired": verdict == "CAUGHT", "rc": int(rc), "first": rest[:300].strip(), "foreign": "", "wall_s": float(secs)})
    return rows


def main():
    d = sys.argv[1]
    merged = {}
    for src in sys.argv[2:]:
        for r in rows_of(src):
            merged[(r["name"], r["property"])] = r
    rows = [merged[k] for k in sorted(merged)]
    outp = os.path.join(VERIF, "selftest", d + ".json")
    json.dump({"engines": "e1", "seed": "1", "rows": rows}, open(outp, "w"), indent=1)
    if d == "seeded":
        for r in rows:
            mp = os.path.join(VERIF, "seeded", r["name"], "meta.json")
            if os.path.exists(mp):
                m = json.load(open(mp))
                m.setdefault("caught_by", {})
                m["caught_by"][r["property"]] = {"fired": r["fired"], "engines": "e1", "first_report": r.get("first", "")}
                m["ran"] = "driver/selftest.py --dir seeded: git -C /repo apply patch.diff; python3 driver/run_check.py <property> --tier quick; git -C /repo checkout -- ."
                json.dump(m, open(mp, "w"), indent=1)
    names = {r["name"] for r in rows}
    caught = {n for n in names if any(r["fired"] for r in rows if r["name"] == n)}
    print("%s: %d rows, %d changes, %d caught by at least one listed check, labelled-check misses: %s" % (
        d, len(rows), len(names), len(caught), sorted(r["name"] for r in rows if not r["fired"])))
    missing = sorted(names - caught)
    if missing:
        print("NOT CAUGHT BY ANY LISTED CHECK:", missing)


if __name__ == "__main__":
    main()
