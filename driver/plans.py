"""Per-property workload plans (which generators, classes, engines, how much) for run_check.py.

Index spaces (see harness/src/gen.rs):
  enum n=2 mult<=2 : 576 shapes x 5 drop orders x 4 Weak placements            = 11 520 histories
  enum n=3 mult<=1 : 46 656 shapes x 16 orders x 4                             = 2 985 984
  enum n=3 mult<=2 : 2 985 984 shapes x 16 x 4                                 = 191 102 976
  full-only variants (every stored handle recorded): n=2 m2 36x5x4=720, n=3 m1 512x16x4=32 768,
  n=3 m2 5 832x16x4 = 373 248, n=4 m1 65 536x65x4 = 17 039 360
  rand: history i is generated from mix(VERIF_SEED, i)
"""

E1_ASSUME = [
    "the harness payload type and ledger (harness/src/{node,world,exec}.rs) implement the documented semantics of Rc/Weak/Adopt correctly",
    "verdict covers only the executions listed under coverage.jobs; bounds: objects per history, multiplicities and history lengths as given there",
    "hooks H1-H4 (cargo features verif, verif-poison) only observe; checked by running the repository suite with the features off",
]

ENUM_TOTAL = {
    (2, 2, False): 11520, (3, 1, False): 2985984, (3, 2, False): 191102976,
    (2, 2, True): 720, (3, 1, True): 32768, (3, 2, True): 373248, (4, 1, True): 17039360,
    (2, 1, False): 2880, (4, 1, False): 141502464000,
}


def enum_job(n, mult, cls="WF", full=False, sample=1, engine="e1", limit=None, time_limit=60, extra=None, shards=None, lo=0):
    total = ENUM_TOTAL[(n, mult, full)]
    hi = total if limit is None else min(total, lo + limit)
    args = ["run", "--gen", "enum", "--n", str(n), "--mult", str(mult), "--class", cls]
    if full:
        args.append("--full-only")
    if sample > 1:
        args += ["--sample-mod", str(sample)]
    args += list(extra or [])
    j = {"engine": engine, "args": args, "lo": lo, "hi": hi, "class": cls, "time_limit": time_limit,
         "label": "enum-n%d-m%d%s%s-%s" % (n, mult, "-full" if full else "", ("-1of%d" % sample) if sample > 1 else "", engine)}
    if shards:
        j["shards"] = shards
    return j


def rand_job(cls, count, engine="e1", objs=5, length=60, weak=1, time_limit=60, extra=None, shards=None, label=None, lo=0):
    args = ["run", "--gen", "rand", "--class", cls, "--objs", str(objs), "--len", str(length), "--weak-bias", str(weak)] + list(extra or [])
    j = {"engine": engine, "args": args, "lo": lo, "hi": lo + count, "class": cls, "time_limit": time_limit,
         "label": label or "rand-%s-o%d-l%d-w%d-%s" % (cls, objs, length, weak, engine)}
    if shards:
        j["shards"] = shards
    return j


def fam_job(cls, count, engine="e1", time_limit=60, extra=None, shards=None, label=None, lo=0):
    args = ["run", "--gen", "family", "--class", cls] + list(extra or [])
    j = {"engine": engine, "args": args, "lo": lo, "hi": lo + count, "class": cls, "time_limit": time_limit,
         "label": label or "family-%s-%s" % (cls, engine)}
    if shards:
        j["shards"] = shards
    return j


def plan(prop, tier, seed):
    q = tier == "quick"
    f = globals().get("plan_" + prop)
    if f is None:
        return None
    p = f(q, seed)
    if not q:
        # thorough tier: the newer workload families also run under AddressSanitizer (a tenth of the volume)
        extra = []
        for j in p["jobs"]:
            if j.get("engine") == "e1" and "kind" not in j and any(t in j["label"] for t in ("CONSUME", "weakescape", "stale", "dropvariants", "ELIDE-consume", "deadclone", "layout", "nodrop")):
                if any(x["label"] == j["label"].replace("-e1", "-e2") for x in p["jobs"]):
                    continue
                c = e2(j)
                if c["label"] == j["label"]:
                    c["label"] = j["label"] + "-e2"
                c["hi"] = c["lo"] + max(1000, (j["hi"] - j["lo"]) // 10)
                c["time_limit"] = min(300, j.get("time_limit", 60))
                extra.append(c)
        p["jobs"] = p["jobs"] + extra
    p.setdefault("level", "exploration")
    p.setdefault("assumptions", E1_ASSUME)
    return p


def wf_core(q, weak=1):
    """The shared well-formed workload: exhaustive 2-object shapes, sampled 3-object shapes, random histories."""
    if q:
        return [
            enum_job(2, 2),
            enum_job(3, 1, sample=16, time_limit=25),
            enum_job(3, 2, sample=1024, time_limit=25),
            rand_job("WF", 120000, weak=weak, time_limit=25),
            rand_job("WF", 30000, objs=7, length=90, weak=weak, time_limit=20),
        ]
    return [
        enum_job(2, 2),
        enum_job(3, 1, time_limit=400),
        enum_job(3, 2, sample=24, time_limit=600),
        rand_job("WF", 3000000, weak=weak, time_limit=300),
        rand_job("WF", 600000, objs=7, length=120, weak=weak, time_limit=200),
        rand_job("WF", 150000, objs=12, length=300, weak=weak, time_limit=200, label="rand-WF-long-e1"),
        fam_job("WF", 400000, time_limit=200, extra=["--max-n", "24"], label="family-WF-large-e1"),
        enum_job(4, 1, sample=1 << 16, time_limit=300),
    ]


def plan_C01(q, seed):
    return {
        "jobs": wf_core(q) + [fam_job("WF", 40000 if q else 1000000, time_limit=15 if q else 300)] + san_samples(q)
        # reachable objects must also survive make_mut (incl. in place on stored handles), try_unwrap, raw round trips of their neighbours
        + [rand_job("CONSUME", 80000 if q else 1500000, time_limit=20 if q else 300, extra=["--consume-bias", "3"], label="rand-CONSUME-live-e1")],
        "accept_foreign": [["C12", "live"]],
        "assumptions": E1_ASSUME + SAN_ASSUME,
        "rule": "well-formed histories (recorded <= stored): every 2-object shape x drop order x Weak placement, sampled 3-object shapes, seeded random dynamic histories; after every operation every object the ledger says is reachable is dereferenced through every handle (canary, id) and every destructor start is checked against reachability. Non-trivial = at least one object was destroyed and a still-reachable object was dereferenced afterwards; distinct = distinct operation sequences",
        "require": {"stats.deref_after_destroy_obs": 1000, "paths.group": 100},
    }


# ---------------------------------------------------------------------------------------------
# engine-specific helpers

E3_LIGHT = ["--light", "--sweep-every", "4", "--no-links", "--no-mem"]


def e2(job):
    job = dict(job)
    job["engine"] = "e2"
    job["label"] = job["label"].replace("-e1", "-e2")
    return job


def e3(job, time_limit):
    job = dict(job)
    job["engine"] = "e3"
    job["label"] = job["label"].replace("-e1", "-e3")
    job["args"] = list(job["args"]) + E3_LIGHT
    job["time_limit"] = time_limit
    job["watchdog"] = time_limit * 3 + 240
    return job


def san_samples(q, cls="WF", weak=1, gen="rand", extra=None, e3_time=None):
    """AddressSanitizer and Miri runs of a smaller version of the same workload."""
    e3t = e3_time or (40 if q else 600)
    if gen == "rand":
        a = rand_job(cls, 30000 if q else 600000, weak=weak, time_limit=25 if q else 300, extra=extra)
        b = rand_job(cls, 100000, weak=weak, objs=4, length=30, extra=extra, lo=1 << 20)
    elif gen == "family":
        a = fam_job(cls, 20000 if q else 400000, time_limit=25 if q else 300, extra=extra)
        b = fam_job(cls, 100000, extra=(extra or []) + ["--max-n", "5"], lo=1 << 20)
    else:
        a = gen_job(gen, cls, 20000 if q else 400000, time_limit=25 if q else 300, extra=extra)
        b = gen_job(gen, cls, 100000, extra=extra, lo=1 << 20)
    return [e2(a), e3(b, e3t)]


def gen_job(gen, cls, count, engine="e1", time_limit=60, extra=None, shards=None, label=None, lo=0):
    args = ["run", "--gen", gen, "--class", cls] + list(extra or [])
    j = {"engine": engine, "args": args, "lo": lo, "hi": lo + count, "class": cls, "time_limit": time_limit,
         "label": label or "%s-%s-%s" % (gen, cls, engine)}
    if shards:
        j["shards"] = shards
    return j


SAN_ASSUME = [
    "AddressSanitizer and Miri observe only the executions produced; a clean run is not a proof of memory safety (intra-object and never-executed-path errors are invisible)",
    "Miri runs use Stacked Borrows with -Zmiri-permissive-provenance; the monitor runs in light mode there (sweep every 4 operations)",
]


def plan_C02(q, seed):
    jobs = wf_core(q, weak=2) + [fam_job("WF", 60000 if q else 1500000, time_limit=20 if q else 300)]
    jobs += [fam_job("WF", 40000 if q else 800000, time_limit=15 if q else 300, extra=["--drop-variants"], label="family-WF-dropvariants-e1"),
             enum_job(2, 2, extra=["--drop-variants"])]
    jobs += [e2(enum_job(2, 2)), e2(enum_job(3, 1, sample=64 if q else 2, time_limit=25 if q else 400))]
    jobs += san_samples(q, weak=2)
    jobs += [e2(fam_job("WF", 15000 if q else 300000, time_limit=20 if q else 300))]
    jobs += [e3(enum_job(2, 2, sample=1 if not q else 40, lo=0), 40 if q else 900)]
    # the statement of C02 has no well-formedness precondition: memory-safety reports in histories that
    # elide unadopt count as well (premature destructions predicted by the known C13 finding stop the
    # history before any damage and are not reported here)
    jobs += [rand_job("ELIDE", 60000 if q else 1200000, time_limit=20 if q else 300, label="rand-ELIDE-memsafety-e1")]
    jobs += [rand_job("ELIDE", 50000 if q else 1000000, time_limit=20 if q else 300, extra=["--consume-bias", "2"], label="rand-ELIDE-consume-memsafety-e1")]
    jobs += [rand_job("CONSUME", 50000 if q else 1000000, time_limit=20 if q else 300, extra=["--consume-bias", "3"], label="rand-CONSUME-memsafety-e1")]
    # AddressSanitizer's own opinion on the consuming calls (incl. failing / evicting Clone inside make_mut), also at the quick tier
    jobs += [e2(rand_job("CONSUME", 8000 if q else 100000, time_limit=20 if q else 300, extra=["--consume-bias", "3"], label="rand-CONSUME-memsafety-e1"))]
    return {
        "jobs": jobs,
        # a Weak that hands out a handle to a destroyed or moved-out value makes the library (and the
        # program) read moved-out contents on the next use: hard Weak reports count here as well
        "accept_foreign": [["C13", "once"], ["C13", "panic"], ["C12", "once"], ["C12", "panic"], ["C12", "weak", "hard"], ["C05", "weak", "hard"]],
        "rule": "well-formed histories with Weak handles outside and inside values (plus histories that elide unadopt, for memory-safety reports only); exactly-once oracle on destructor starts (canary), allocator oracle (double/invalid free, write-after-free in quarantine mode), moved-out-field poison (H2) turning stale table reads into deterministic panics, AddressSanitizer reports and Miri UB errors as process deaths. Non-trivial = an object was destroyed while handles to it or a group teardown or a zero-count-with-adoptions teardown were involved; distinct = distinct operation sequences",
        "assumptions": E1_ASSUME + SAN_ASSUME,
        "require": {"paths.group": 100, "paths.with_adoptions": 100, "paths.dead_handle": 100},
    }


def plan_C03(q, seed):
    jobs = [
        enum_job(2, 2, cls="FULL", full=True),
        enum_job(3, 1, cls="FULL", full=True),
        enum_job(3, 2, cls="FULL", full=True, sample=4 if q else 1, time_limit=25 if q else 200),
        enum_job(4, 1, cls="FULL", full=True, sample=256 if q else 8, time_limit=25 if q else 400),
        fam_job("FULL", 150000 if q else 3000000, time_limit=25 if q else 400),
        fam_job("FULL", 20000 if q else 400000, time_limit=15 if q else 200, extra=["--max-n", "24"], label="family-FULL-large-e1"),
        fam_job("WF", 60000 if q else 1000000, time_limit=20 if q else 200),
        rand_job("FULL", 60000 if q else 1500000, time_limit=20 if q else 200),
        rand_job("WF", 60000 if q else 1500000, time_limit=20 if q else 200),
        enum_job(3, 1, sample=32 if q else 1, time_limit=20 if q else 400),
        # stale records *inside* a group do not excuse it from being collected (every real handle is
        # still explained by a recorded adoption of a member); only a stale record held by an outsider does
        rand_job("ELIDE", 60000 if q else 1200000, time_limit=20 if q else 300, label="rand-ELIDE-sync-e1"),
        # handles given up through into_raw + decrement_strong_count (by the program and inside destructors) and make_mut
        fam_job("FULL", 60000 if q else 1200000, time_limit=20 if q else 300, extra=["--drop-variants"], label="family-FULL-dropvariants-e1"),
        enum_job(3, 1, cls="FULL", full=True, extra=["--drop-variants"], time_limit=20 if q else 100),
        rand_job("CONSUME", 60000 if q else 1200000, time_limit=20 if q else 300, extra=["--consume-bias", "3"], label="rand-CONSUME-sync-e1"),
        # values without drop glue that own their handles in raw form: destruction observed through Weak handles
        gen_job("nodrop", "WF", 40000 if q else 1000000, time_limit=15 if q else 150),
    ]
    jobs += [e3(fam_job("FULL", 100000, extra=["--max-n", "5"], lo=1 << 20), 30 if q else 600)]
    jobs += [e2(gen_job("nodrop", "WF", 4000 if q else 100000, time_limit=15 if q else 150)), e3(gen_job("nodrop", "WF", 100000, lo=1 << 20), 20 if q else 300)]
    return {
        "jobs": jobs,
        "accept_foreign": [["C12", "sync"]],
        "rule": "fully recorded shapes (every 2- and 3-object shape, sampled 4-object shapes), rings/cliques/chords/lists/tails/shared cycles/parallel edges with every choice of last outside handle, random histories; at every handle drop (top-level and nested inside destructors) the ledger computes the set the property requires (forward closure over recorded adoptions, all handles explained) and demands End events for all of it before that drop returns. Non-trivial = the rule required a collection that involved a group or a zero-count object with adoptions; distinct = distinct operation sequences",
        "assumptions": E1_ASSUME + SAN_ASSUME,
        "require": {"stats.required_groups": 1000, "paths.group": 500},
    }


def plan_C04(q, seed):
    jobs = [
        rand_job("WF", 150000 if q else 3000000, weak=3, time_limit=25 if q else 300),
        fam_job("WF", 60000 if q else 1500000, time_limit=20 if q else 300),
        fam_job("FULL", 40000 if q else 800000, time_limit=15 if q else 200),
        enum_job(2, 2),
        enum_job(3, 1, sample=32 if q else 1, time_limit=20 if q else 400),
        # allocations given up by try_unwrap / make_mut and their bookkeeping must be returned as well
        rand_job("CONSUME", 80000 if q else 1500000, weak=3, time_limit=20 if q else 300, extra=["--consume-bias", "3"], label="rand-CONSUME-mem-e1"),
        # collected groups of values without drop glue must return their boxes and tables too
        gen_job("nodrop", "WF", 40000 if q else 1000000, time_limit=15 if q else 150),
    ]
    # independent second opinions on leak-free-predicted batches: LeakSanitizer at exit, Miri's leak checker
    lj = rand_job("WF", 16000 if q else 400000, weak=3, time_limit=25 if q else 300, lo=1 << 21, label="rand-WF-leakcheck-e2l")
    lj["engine"] = "e2l"
    jobs.append(lj)
    # the same for allocations given up by try_unwrap / make_mut and for make_mut calls whose Clone fails
    lc = rand_job("CONSUME", 12000 if q else 300000, weak=3, time_limit=25 if q else 300, lo=1 << 23, extra=["--consume-bias", "3"], label="rand-CONSUME-leakcheck-e2l")
    lc["engine"] = "e2l"
    jobs.append(lc)
    mj = e3(rand_job("WF", 100000, weak=3, objs=4, length=30, lo=1 << 22, label="rand-WF-leakcheck-e3l"), 35 if q else 600)
    mj["engine"] = "e3l"
    jobs.append(mj)
    return {
        "jobs": jobs,
        "rule": "histories that end with a teardown phase in which every object dies (by all three teardown paths) and every Weak is dropped; MonAlloc attributes every block to library or harness: per object, the allocation must be live exactly while the object is alive or Weak handles remain, library-origin blocks beyond object allocations and one table per live adopted object are a leak, and at the end library-origin live blocks and bytes must be zero. LeakSanitizer (exit code) and Miri's leak checker judge separate batches. Non-trivial = history ended with everything destroyed and allocation states were compared; distinct = distinct operation sequences",
        "assumptions": E1_ASSUME + SAN_ASSUME + ["leak checks by LSan/Miri are per process (batch of histories all predicted leak-free)"],
        "require": {"paths.group": 100, "paths.with_adoptions": 100, "paths.plain": 100, "stats.mem_obs": 1000},
    }


def plan_C05(q, seed):
    jobs = wf_core(q, weak=4) + [fam_job("WF", 60000 if q else 1500000, time_limit=20 if q else 300)]
    jobs += san_samples(q, weak=4)
    # Weak handles to allocations given up by try_unwrap / make_mut must report dead as well
    jobs += [rand_job("CONSUME", 60000 if q else 1200000, weak=3, time_limit=20 if q else 300, extra=["--consume-bias", "3"], label="rand-CONSUME-weak-e1")]
    # Weak handles created *during* a teardown, by destructors downgrading their own stored handles
    # (to dying peers, to the dying object itself, to outsiders), must stay valid until dropped
    jobs += [gen_job("weakescape", "WF", 60000 if q else 1200000, time_limit=20 if q else 300)]
    return {
        "jobs": jobs,
        "accept_foreign": [["C12", "weak"]],
        "rule": "well-formed histories dense in downgrade/upgrade/clone/drop of Weak handles held by the program and stored in values (to self, peers, outsiders); after every operation every Weak reports strong_count/weak_count equal to the ledger (0/0 once the target is destroyed), every upgrade result is compared with the ledger and the returned handle must be the original allocation; every dying value probes all Weak handles it owns from inside its destructor. Non-trivial = Weak observations were made in a history where objects were destroyed; distinct = distinct operation sequences",
        "assumptions": E1_ASSUME + SAN_ASSUME,
        "require": {"stats.wprobes_dead": 1000, "stats.upgrades_none": 1000, "stats.upgrades_some": 1000, "paths.group": 100, "stats.weak_escapes_dead": 1000},
    }


def plan_C06(q, seed):
    jobs = wf_core(q) + [
        rand_job("FULL", 60000 if q else 1500000, time_limit=20 if q else 300),
        fam_job("WF", 60000 if q else 1500000, time_limit=20 if q else 300),
        # counts and identity across make_mut, raw round trips, increment/decrement_strong_count
        rand_job("CONSUME", 80000 if q else 1500000, time_limit=20 if q else 300, extra=["--consume-bias", "4"], label="rand-CONSUME-counts-e1"),
        # a collection of *other* objects must not change the count of a live one, also when stale
        # records and given-up allocations are around (violations carrying the known C13 signature are not accepted)
        rand_job("ELIDE", 60000 if q else 1200000, time_limit=20 if q else 300, extra=["--consume-bias", "2"], label="rand-ELIDE-consume-counts-e1"),
    ]
    return {
        "jobs": jobs,
        "accept_foreign": [["C12", "count"], ["C13", "live"], ["C13", "once"]],
        "rule": "after every operation, for every live object (also unreachable garbage, read through stored handles by reference): Rc::strong_count, Rc::weak_count, Weak::strong_count, Weak::weak_count, as_ptr (must equal the address at creation) and pairwise ptr_eq of all handles are compared with the ledger. Non-trivial = counts were compared in a history where objects were destroyed (partial collections next to survivors); distinct = distinct operation sequences",
        "require": {"stats.count_obs": 100000, "paths.group": 100},
    }


def plan_C07(q, seed):
    jobs = [gen_job("diff", "NOADOPT", 300000 if q else 8000000, time_limit=30 if q else 500)]
    jobs += [e2(gen_job("diff", "NOADOPT", 30000 if q else 600000, time_limit=20 if q else 300))]
    jobs += [e3(gen_job("diff", "NOADOPT", 100000, extra=["--len", "40"], lo=1 << 20), 40 if q else 600)]
    for j in jobs:
        j["class"] = "DIFF"  # a process death in a differential run is a difference to std::rc (which survives)
    return {
        "level": "translation_validation",
        "jobs": jobs,
        "rule": "seeded straight-line programs over the API shared with std::rc (construction incl. pin/From<T>/From<Box<T>>/Default/new_uninit, clone, drop, downgrade/upgrade, Weak::new/default/clone/drop, all counts, try_unwrap, get_mut, make_mut (3 branches), raw round trips for Rc and Weak, increment/decrement_strong_count, ptr_eq, comparison/hash/fmt, Borrow/AsRef/Deref), values owning strong and Weak handles (acyclic and leaking cycles); the same interpreter source is instantiated on cactusref and on std::rc and the transcripts (call results + interleaved destructor log with in-destructor Weak probes) must be identical. Non-trivial = at least one value was destroyed in the program; distinct = distinct programs",
        "assumptions": ["std::rc of the installed nightly toolchain is the reference", "pointer values are compared only through the equality relations they induce", "destructor side of the comparison is the order and count of destructor runs plus in-destructor probes of own Weak handles"] + SAN_ASSUME,
        "translation": True,
    }


def plan_C08(q, seed):
    jobs = wf_core(q) + [
        rand_job("WF", 60000 if q else 1500000, objs=3, length=90, time_limit=20 if q else 300, label="rand-WF-dense-e1"),
        rand_job("ELIDE", 40000 if q else 800000, time_limit=25 if q else 300),
        fam_job("WF", 40000 if q else 1000000, time_limit=15 if q else 200),
        # records must also disappear when an allocation is given up by try_unwrap / make_mut
        rand_job("CONSUME", 60000 if q else 1200000, time_limit=20 if q else 300, extra=["--consume-bias", "3"], label="rand-CONSUME-links-e1"),
    ]
    return {
        "jobs": jobs,
        "accept_foreign": [["C12", "links"]],
        "rule": "after every operation and at every destructor start, the link table of every live object (hook H1) is compared with the adoption ledger: forward/backward multiplicities per peer, self records, no zero-count entries, no entry naming an allocation that is not a live object; histories include redundant/unmatched unadopts, parallel adoptions, elided unadopts and interleaved collections, with address reuse (plain allocator mode) so that a stale entry would alias a new object. Non-trivial = tables with entries were inspected; distinct = distinct operation sequences",
        "require": {"stats.links_entries": 100000, "paths.group": 100, "paths.with_adoptions": 100},
    }


def plan_C09(q, seed):
    k = 8 if q else 32
    jobs = [gen_job("layout", "FULL", 40000 if q else 600000, time_limit=35 if q else 600, extra=["--layouts", str(k)])]
    jobs += [e2(gen_job("layout", "FULL", 4000 if q else 80000, time_limit=20 if q else 300, extra=["--layouts", "4"]))]
    jobs += [e3(gen_job("layout", "FULL", 100000, extra=["--layouts", "3"], lo=1 << 20), 40 if q else 600)]
    return {
        "jobs": jobs,
        "rule": "fully recorded histories (structured families, random, enumerated) executed once, then the recorded call sequence is replayed under K heap layouts (MonAlloc scatter with K seeds, plus plain and quarantine modes; real ASLR + ASan allocator; Miri address assignment) and the per-operation digest of destroyed sets (sorted: order inside a group is not compared), return values and all observable counts must be equal. Non-trivial = the history has tables with >= 2 entries, objects were destroyed, and the layouts produced >= 2 distinct table iteration orders (observed through hook H1); distinct = distinct call sequences",
        "assumptions": E1_ASSUME + SAN_ASSUME + ["'every layout' is restated as K layouts per history"],
        "require": {"extra.histories_where_layouts_produced_distinct_table_orders": 100},
    }


def plan_C10(q, seed):
    jobs = [gen_job("script", "SCRIPT", 150000 if q else 3000000, time_limit=30 if q else 500)]
    # the same on shapes where some stored handles were dropped without unadopt (stale records are allowed
    # by the documentation; destructions explained by the known C13 finding are reported there, not here)
    jobs += [gen_job("script", "SCRIPT", 60000 if q else 1200000, time_limit=20 if q else 300, extra=["--allow-stale", "--elide-base"], label="script-SCRIPT-stale-e1")]
    jobs += [e2(gen_job("script", "SCRIPT", 20000 if q else 400000, time_limit=20 if q else 300))]
    jobs += [e3(gen_job("script", "SCRIPT", 100000, lo=1 << 20), 40 if q else 600)]
    return {
        "jobs": jobs,
        "rule": "small shapes (enumerated 2-3 objects, structured families up to 6) whose destructors carry action scripts (create+store, clone, drop incl. the last outside handle of another group => nested collection, adopt, unadopt, downgrade, upgrade of live objects and of dying peers, take+drop) executed before or after the value releases its own handles, at every member position of every teardown path; actions on objects that are themselves being destroyed are skipped at run time (C16 territory); all rules of C01-C06 stay armed during nested calls and any panic is a violation. Non-trivial = at least one scripted action executed inside a destructor; distinct = distinct operation sequences",
        "assumptions": E1_ASSUME + SAN_ASSUME,
        "require": {"stats.script_actions": 1000, "paths.group": 100},
    }


def plan_C11(q, seed):
    jobs = [gen_job("panic", "PANIC", 150000 if q else 3000000, time_limit=30 if q else 500)]
    # the same on shapes where some stored handles were dropped without unadopt first (stale records are
    # allowed by the documentation; a panic during the teardown of an object named by a stale record must
    # still not lead to a second destruction; destructions explained by the known C13 finding are reported there)
    jobs += [gen_job("panic", "PANIC", 60000 if q else 1200000, time_limit=20 if q else 300, extra=["--allow-stale", "--elide-base"], label="panic-PANIC-stale-e1")]
    jobs += [e2(gen_job("panic", "PANIC", 20000 if q else 400000, time_limit=20 if q else 300))]
    jobs += [e3(gen_job("panic", "PANIC", 100000, lo=1 << 20), 40 if q else 600)]
    return {
        "level": "fault_enumeration",
        "jobs": jobs,
        "rule": "fault injection: one scripted panic in the destructor of a chosen object (every member index of enumerated 2-3 object shapes and structured families, before or after the value released its own handles), on every teardown path; the panic must reach the caller of drop, no destructor may start twice, nothing reachable may be destroyed, Weak handles to group members must report dead, the allocator must see no double free; 10-20 random operations on the survivors follow. Non-trivial = the scripted panic fired; distinct = distinct operation sequences",
        "assumptions": E1_ASSUME + SAN_ASSUME + ["exactly one panic per history; a second panic while unwinding aborts by language rule and is out of scope", "memory conservation is not asserted after a panic (the property permits leaks)"],
        "require": {"stats.panics_scripted": 1000, "paths.group": 100},
    }


def plan_C12(q, seed):
    jobs = [rand_job("CONSUME", 150000 if q else 3000000, time_limit=30 if q else 500, extra=["--consume-bias", "3"])]
    jobs += [rand_job("CONSUME", 40000 if q else 800000, objs=3, length=40, time_limit=15 if q else 200, extra=["--consume-bias", "5"], label="rand-CONSUME-dense-e1")]
    jobs += san_samples(q, cls="CONSUME", extra=["--consume-bias", "3"])
    # values without drop glue (handles owned as raw pointers): an outside owner of group members is given up
    # by try_unwrap / make_mut, then the group is collected; its old allocation must stay untouched under a Weak
    jobs += [gen_job("nodropconsume", "CONSUME", 40000 if q else 1000000, time_limit=15 if q else 150),
             e2(gen_job("nodropconsume", "CONSUME", 4000 if q else 100000, time_limit=15 if q else 150))]
    return {
        "jobs": jobs,
        "rule": "well-formed random histories that call try_unwrap, make_mut (clone / move / unique branches), get_mut, into_raw+from_raw, increment/decrement_strong_count on objects that have adopted or been adopted, with and without outstanding Weak handles, followed by further drops of the former peers; link-table snapshots (H1) must not name a given-up allocation, values must be moved out or cloned exactly once (canary + destructor log), and all later operations must satisfy the rules of C01/C02/C05/C06. Non-trivial = a consuming call succeeded in a history whose tables had entries; distinct = distinct operation sequences",
        "assumptions": E1_ASSUME + SAN_ASSUME,
        "require": {"stats.consume_ok": 1000, "paths.group": 50},
    }


def plan_C13(q, seed):
    jobs = [rand_job("ELIDE", 100000 if q else 2000000, time_limit=35 if q else 500)]
    jobs += [rand_job("ELIDE", 30000 if q else 600000, objs=3, length=40, time_limit=15 if q else 200, label="rand-ELIDE-dense-e1")]
    jobs += [e2(rand_job("ELIDE", 10000 if q else 200000, time_limit=20 if q else 300))]
    # forgotten unadopt combined with the handle-consuming APIs (the taken handle is unwrapped, made unique, ...)
    jobs += [rand_job("ELIDE", 60000 if q else 1200000, time_limit=25 if q else 300, extra=["--consume-bias", "2"], label="rand-ELIDE-consume-e1")]
    return {
        "jobs": jobs,
        "rule": "random histories that are well-formed except that recorded handles are taken out of their owner without unadopt (then kept, dropped or re-stored), followed by further operations; premature-destruction and exactly-once/allocator rules armed, synchronous-collection rule disarmed for groups touched by a stale record (leaks are the permitted consequence). Non-trivial = at least one take left a stale record; distinct = distinct operation sequences",
        "assumptions": E1_ASSUME + ["a premature destruction that the documented algorithm itself predicts from a stale record is matched against known_findings.json by its cause signature; anything else is a violation"],
        "require": {"stats.elide_takes": 1000},
    }


def plan_C14(q, seed):
    jobs = [
        rand_job("NOADOPT", 100000 if q else 2000000, time_limit=20 if q else 300),
        rand_job("WF", 120000 if q else 2500000, time_limit=25 if q else 300),
        rand_job("FULL", 40000 if q else 800000, time_limit=15 if q else 200),
        fam_job("WF", 30000 if q else 600000, time_limit=15 if q else 200),
        # an adoption is also undone when the peer dies: after an elided unadopt the survivor's table must
        # be purged of the dead peer completely (whatever the recorded multiplicities were)
        rand_job("ELIDE", 60000 if q else 1200000, time_limit=20 if q else 300, label="rand-ELIDE-cost-e1"),
        # ... and when the peer's allocation is given up by try_unwrap / make_mut
        rand_job("CONSUME", 60000 if q else 1200000, time_limit=20 if q else 300, extra=["--consume-bias", "3"], label="rand-CONSUME-cost-e1"),
    ]
    return {
        "jobs": jobs,
        "accept_foreign": [["C12", "cost"]],
        "rule": "around every clone and drop of a handle to an object whose ledger row and column are empty (never adopted, fully unadopted again, or merely stored inside adopted objects) the trace-invocation counter (hook H3) and MonAlloc's library-origin allocation counter are sampled at call and at return (or at the first destructor start: work done by user destructors is not charged); both deltas must be zero. Non-trivial = at least one such window was measured; distinct = distinct operation sequences",
        "require": {"stats.c14_obs": 100000, "stats.c14_after_unadopt_obs": 1000},
    }


def plan_C15(q, seed):
    if q:
        sizes = [("ring", 1000), ("ring", 10000), ("ring", 100000), ("chords", 1000), ("chords", 100000),
                 ("selfmix", 1000), ("selfmix", 100000), ("clique", 100), ("clique", 300),
                 ("hub", 10000), ("hub", 40000), ("hub", 160000), ("chords", 25000), ("chords", 400000),
                 ("sharedleaf", 3001), ("sharedleaf", 48001), ("aftermath", 200000), ("churn", 300000), ("ring", 400000)]
        stacks = [128]
        growth = [("hub", 40000, 160000), ("chords", 25000, 100000), ("chords", 100000, 400000), ("ring", 10000, 100000), ("ring", 100000, 400000)]
    else:
        sizes = [(s, n) for s in ("ring", "chords", "selfmix") for n in (1000, 3000, 10000, 30000, 100000, 300000)]
        sizes += [("clique", n) for n in (50, 100, 200, 400, 600)]
        sizes += [("hub", n) for n in (10000, 40000, 160000, 640000)] + [("chords", 75000), ("chords", 1200000)]
        sizes += [("sharedleaf", n) for n in (3001, 12001, 48001, 192001)] + [("aftermath", 50000), ("aftermath", 300000), ("churn", 100000), ("churn", 1000000)]
        stacks = [64, 128]
        growth = [("hub", 40000, 160000), ("hub", 160000, 640000), ("chords", 75000, 300000), ("chords", 300000, 1200000), ("ring", 30000, 300000), ("selfmix", 30000, 300000)]
    return {
        "jobs": [{"kind": "scale", "engine": "e1", "sizes": sizes, "stacks": stacks, "label": "scale-e1", "args": [], "lo": 0, "hi": 0, "seeds": [seed, seed + 1] if not q else [seed], "growth": growth},
                 {"kind": "scale", "engine": "e3", "sizes": [("ring", 24), ("chords", 24), ("selfmix", 30), ("clique", 8)], "stacks": [128], "label": "scale-e3", "args": [], "lo": 0, "hi": 0, "seeds": [seed]}],
        "rule": "one orphanable group of N objects (ring, ring + N/2 random chords, clique, hub, ring whose members all adopt one shared leaf, ring with self-adoptions through a clone and through the same handle; 'aftermath': 400 two-object cycles before and after a large collection in the same process must cost the same; 'churn': 100 traces through the hub of a two-object cycle must cost the same before and after the hub adopted and unadopted N peers) is built by moving handles so that exactly one drop triggers exactly one trace, then collected on a thread with a 64/128 KiB stack in a child process; the child must complete, trace counters (H3) must satisfy generous linear bounds (expansions <= 2N, pops <= 2(N+E)+1, entries scanned <= 4E+2N; the current algorithm needs N, pairs+1 and 2*pairs), all N members destroyed, destructor nesting depth must stay 1; CPU time of the collecting thread must grow linearly between 4N and 16N (hub and chord shapes keep many objects pending at once; verdict only if the growth factor exceeds 3x linear AND the cost per object-or-adoption exceeds 2 us, re-measured once). 'Any size' is restated as this bounded scaling experiment; wall time is recorded as evidence only. Distinct = distinct (shape, N, stack, seed)",
        "assumptions": ["bounded restatement of an unbounded claim: N up to 3*10^5 (clique: 600)", "hooks H3 count what the trace does; payload destructor measures nesting"],
    }


def plan_C16(q, seed):
    jobs = [
        gen_job("deadclone", "DEAD", 16000 if q else 300000, time_limit=30 if q else 400),
        gen_job("deaddrop", "DEAD", 16000 if q else 300000, time_limit=30 if q else 400),
        # a handle that escaped from a destructor (allocation kept by a Weak) cloned after the collection returned
        gen_job("deadclonelate", "DEAD", 8000 if q else 150000, time_limit=20 if q else 300),
        # the clone happens while another member's destructor panic is unwinding; and after the destructor
        # itself created and dropped a Weak from the dead handle
        gen_job("deadclonepanic", "DEAD", 8000 if q else 150000, time_limit=20 if q else 300),
        gen_job("deadcloneafterweak", "DEAD", 8000 if q else 150000, time_limit=20 if q else 300),
        # Clone::clone_from between two handles to the same destroyed peer is a cloning entry point too
        gen_job("deadclonefrom", "DEAD", 8000 if q else 150000, time_limit=20 if q else 300),
        e2(gen_job("deadclone", "DEAD", 2000 if q else 40000, time_limit=20 if q else 200)),
        e2(gen_job("deaddrop", "DEAD", 2000 if q else 40000, time_limit=20 if q else 200)),
        {"kind": "miri-child", "engine": "e3", "count": 16 if q else 240, "label": "deadclone-e3", "args": [], "lo": 0, "hi": 0,
         "modes": ["deadclone", "deadclonefrom", "deadcloneafterweak", "deadclonelate"]},
    ]
    return {
        "jobs": jobs,
        "rule": "one child process per scenario: a collectable shape (fully recorded 2-3 object shapes, rings/cliques/... up to 6) in which the destructor of a chosen member clones (resp. only drops) one of its stored handles whose target is already destroyed (a peer of the group being collected, or itself); the parent observes the exit status: after the BEFORE-CLONE marker the child must die by SIGILL/SIGABRT without printing AFTER-CLONE; the drop-only variant must complete normally with all monitors silent. Under Miri the abort is reported as 'the program aborted execution'. Non-trivial = the dead handle was actually touched; distinct = distinct operation sequences",
        "assumptions": E1_ASSUME + ["process exit status and stdout markers are the observation"],
        "require": {"stats.dead_clones_attempted": 500, "stats.dead_drops": 500},
    }
