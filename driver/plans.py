"""Per-property workload plans (which generators, classes, engines, how much) for run_check.py.

Index spaces (see harness/src/gen.rs):
  enum n=2 mult<=2 : 576 shapes x 5 drop orders x 4 Weak placements            = 11 520 histories
  enum n=3 mult<=1 : 46 656 shapes x 16 orders x 4                             = 2 985 984
  enum n=3 mult<=2 : 2 985 984 shapes x 16 x 4                                 = 191 102 976
  full-only variants (every stored handle recorded): n=2 m2 36x5x4=720, n=3 m1 512x16x4=32 768,
  n=3 m2 5 832x16x4 = 373 248, n=4 m1 65 536x65x4 = 17 039 360
  rand: history i is generated from mix(VERIF_SEED, i)
"""

E1_ASSUME = [
    "the harness payload type and ledger (harness/src/{node,world,exec}.rs) implement the documented semantics of Rc/Weak/Adopt correctly",
    "verdict covers only the executions listed under coverage.jobs; bounds: objects per history, multiplicities and history lengths as given there",
    "hooks H1-H4 (cargo features verif, verif-poison) only observe; checked by running the repository suite with the features off",
]

ENUM_TOTAL = {
    (2, 2, False): 11520, (3, 1, False): 2985984, (3, 2, False): 191102976,
    (2, 2, True): 720, (3, 1, True): 32768, (3, 2, True): 373248, (4, 1, True): 17039360,
    (2, 1, False): 2880, (4, 1, False): 141502464000,
}


def enum_job(n, mult, cls="WF", full=False, sample=1, engine="e1", limit=None, time_limit=60, extra=None, shards=None, lo=0):
    total = ENUM_TOTAL[(n, mult, full)]
    hi = total if limit is None else min(total, lo + limit)
    args = ["run", "--gen", "enum", "--n", str(n), "--mult", str(mult), "--class", cls]
    if full:
        args.append("--full-only")
    if sample > 1:
        args += ["--sample-mod", str(sample)]
    args += list(extra or [])
    j = {"engine": engine, "args": args, "lo": lo, "hi": hi, "class": cls, "time_limit": time_limit,
         "label": "enum-n%d-m%d%s%s-%s" % (n, mult, "-full" if full else "", ("-1of%d" % sample) if sample > 1 else "", engine)}
    if shards:
        j["shards"] = shards
    return j


def rand_job(cls, count, engine="e1", objs=5, length=60, weak=1, time_limit=60, extra=None, shards=None, label=None, lo=0):
    args = ["run", "--gen", "rand", "--class", cls, "--objs", str(objs), "--len", str(length), "--weak-bias", str(weak)] + list(extra or [])
    j = {"engine": engine, "args": args, "lo": lo, "hi": lo + count, "class": cls, "time_limit": time_limit,
         "label": label or "rand-%s-o%d-l%d-w%d-%s" % (cls, objs, length, weak, engine)}
    if shards:
        j["shards"] = shards
    return j


def fam_job(cls, count, engine="e1", time_limit=60, extra=None, shards=None, label=None, lo=0):
    args = ["run", "--gen", "family", "--class", cls] + list(extra or [])
    j = {"engine": engine, "args": args, "lo": lo, "hi": lo + count, "class": cls, "time_limit": time_limit,
         "label": label or "family-%s-%s" % (cls, engine)}
    if shards:
        j["shards"] = shards
    return j


def plan(prop, tier, seed):
    q = tier == "quick"
    f = globals().get("plan_" + prop)
    if f is None:
        return None
    p = f(q, seed)
    p.setdefault("level", "exploration")
    p.setdefault("assumptions", E1_ASSUME)
    return p


def wf_core(q, weak=1):
    """The shared well-formed workload: exhaustive 2-object shapes, sampled 3-object shapes, random histories."""
    if q:
        return [
            enum_job(2, 2),
            enum_job(3, 1, sample=16, time_limit=25),
            enum_job(3, 2, sample=1024, time_limit=25),
            rand_job("WF", 120000, weak=weak, time_limit=25),
            rand_job("WF", 30000, objs=7, length=90, weak=weak, time_limit=20),
        ]
    return [
        enum_job(2, 2),
        enum_job(3, 1, time_limit=400),
        enum_job(3, 2, sample=24, time_limit=600),
        rand_job("WF", 3000000, weak=weak, time_limit=300),
        rand_job("WF", 600000, objs=7, length=120, weak=weak, time_limit=200),
    ]


def plan_C01(q, seed):
    return {
        "jobs": wf_core(q),
        "rule": "well-formed histories (recorded <= stored): every 2-object shape x drop order x Weak placement, sampled 3-object shapes, seeded random dynamic histories; after every operation every object the ledger says is reachable is dereferenced through every handle (canary, id) and every destructor start is checked against reachability. Non-trivial = at least one object was destroyed and a still-reachable object was dereferenced afterwards; distinct = distinct operation sequences",
        "require": {"stats.deref_after_destroy_obs": 1000, "paths.group": 100},
    }
