#!/usr/bin/env python3
"""Driver of the runtime-monitoring checks for artichoke/cactusref (see /verif/DESIGN.md).

    python3 driver/run_check.py <Cxx> --tier quick|thorough      run one check
    python3 driver/run_check.py replay <replay.json>             re-execute a recorded witness
    python3 driver/run_check.py build [e1 e2 e3]                 (re)build engines

Contract (MANIFEST.json): exit 0 = property held on everything explored; exit 1 + a line
`VIOLATION property=<id> replay=<path>` = violation; honours VERIF_SEED; rewrites
evidence/<id>.json on every run; rebuilds the engines from /repo's current working tree.
"""
import argparse
import hashlib
import json
import os
import shutil
import signal
import subprocess
import sys
import time
from concurrent.futures import ThreadPoolExecutor

VERIF = os.path.dirname(os.path.dirname(os.path.abspath(__file__)))
HARNESS = os.path.join(VERIF, "harness")
TARGET = os.path.join(VERIF, "target")
TMP = os.path.join(TARGET, "tmp")
NCPU = max(1, min(16, os.cpu_count() or 1))

sys.path.insert(0, os.path.dirname(os.path.abspath(__file__)))
import plans  # noqa: E402

BASE_ENV = dict(os.environ)
BASE_ENV.update({"CARGO_NET_OFFLINE": "true", "RUSTUP_TOOLCHAIN": "nightly", "RUST_BACKTRACE": "0"})

ENGINES = {
    "e1": {
        "desc": "native release + MonAlloc + moved-out-field poison (H2)",
        "build": ["cargo", "build", "--release", "--features", "monalloc,poison"],
        "env": {},
        "bin": os.path.join(TARGET, "e1", "release", "vh"),
        "run_env": {},
    },
    "e2": {
        "desc": "native release + AddressSanitizer + poison (H2)",
        "build": ["cargo", "build", "--release", "--target", "x86_64-unknown-linux-gnu", "--features", "poison"],
        "env": {"RUSTFLAGS": "-Zsanitizer=address -Cforce-frame-pointers=yes"},
        "bin": os.path.join(TARGET, "e2", "x86_64-unknown-linux-gnu", "release", "vh"),
        "run_env": {"ASAN_OPTIONS": "detect_leaks=0:halt_on_error=1:abort_on_error=1:symbolize=1:detect_stack_use_after_return=0"},
    },
    "e2l": {  # same binary as e2, LeakSanitizer on at exit
        "alias": "e2",
        "run_env": {"ASAN_OPTIONS": "detect_leaks=1:halt_on_error=1:abort_on_error=1:symbolize=1", "LSAN_OPTIONS": "exitcode=23"},
    },
    "e3": {
        "desc": "Miri (Stacked Borrows, permissive provenance)",
        "build": ["cargo", "miri", "run", "--", "version"],
        "env": {"MIRIFLAGS": "-Zmiri-permissive-provenance -Zmiri-disable-isolation"},
        "bin": None,
        "run_env": {"MIRIFLAGS": "-Zmiri-permissive-provenance -Zmiri-disable-isolation"},
    },
    "e3l": {  # Miri with its leak checker left on (default) -- same build
        "alias": "e3",
        "run_env": {"MIRIFLAGS": "-Zmiri-permissive-provenance -Zmiri-disable-isolation"},
    },
}
MIRI_NOLEAK = "-Zmiri-permissive-provenance -Zmiri-disable-isolation -Zmiri-ignore-leaks"
ENGINES["e3"]["run_env"]["MIRIFLAGS"] = MIRI_NOLEAK


def log(msg):
    print(msg, flush=True)


def engine_base(name):
    e = ENGINES[name]
    return e.get("alias", name)


def build_engine(name):
    base = engine_base(name)
    e = ENGINES[base]
    env = dict(BASE_ENV)
    env.update(e["env"])
    env["CARGO_TARGET_DIR"] = os.path.join(TARGET, base)
    t0 = time.time()
    p = subprocess.run(e["build"], cwd=HARNESS, env=env, stdout=subprocess.PIPE, stderr=subprocess.STDOUT, text=True)
    if p.returncode != 0:
        log(p.stdout[-6000:])
        raise SystemExit("BROKEN: building engine %s failed" % base)
    return time.time() - t0


def engine_cmd(name):
    base = engine_base(name)
    if base == "e3":
        return ["cargo", "miri", "run", "-q", "--"]
    return [ENGINES[base]["bin"]]


def engine_env(name):
    base = engine_base(name)
    env = dict(BASE_ENV)
    env.update(ENGINES[base]["env"])
    env.update(ENGINES[name]["run_env"])
    env["CARGO_TARGET_DIR"] = os.path.join(TARGET, base)
    return env


# ---------------------------------------------------------------------------------------------
# attribution of process deaths (mirror of world::attribute for rule "once")

def crash_prop(cls):
    return {"SCRIPT": "C10", "PANIC": "C11", "CONSUME": "C12", "ELIDE": "C13", "DIFF": "C07", "DEAD": "C16"}.get(cls, "C02")


def classify_death(rc, stderr_text):
    """-> (kind, detail). kind in asan|miri|signal|exit"""
    t = stderr_text or ""
    if "LeakSanitizer: detected memory leaks" in t or ("SUMMARY: AddressSanitizer" in t and "byte(s) leaked in" in t):
        return "lsan", " ".join(l.strip() for l in t.splitlines() if "SUMMARY" in l or "leak of" in l)[:300]
    if "AddressSanitizer" in t:
        kind = "asan"
        first = ""
        for line in t.splitlines():
            if "ERROR: AddressSanitizer" in line:
                first = line.strip()
                break
        frame = ""
        for line in t.splitlines():
            if "/repo/src/" in line:
                frame = line.strip()
                break
        return kind, (first + " | " + frame)[:400]
    if "LeakSanitizer" in t:
        return "lsan", "LeakSanitizer: " + " ".join(l.strip() for l in t.splitlines() if "SUMMARY" in l)[:300]
    if "error: memory leaked" in t and "Undefined Behavior" not in t:
        det = " ".join(l.strip() for l in t.splitlines() if "memory leaked" in l or "alloc" in l and "Rust heap" in l)[:300]
        return "mirileak", det
    if "Undefined Behavior" in t or "the program aborted execution" in t:
        det = ""
        for line in t.splitlines():
            if line.startswith("error"):
                det = line.strip()
                break
        frame = ""
        for line in t.splitlines():
            if "/repo/src/" in line and "-->" in line:
                frame = line.strip()
                break
        return "miri", (det + " | " + frame)[:400]
    if rc is not None and rc < 0:
        try:
            name = signal.Signals(-rc).name
        except Exception:
            name = str(-rc)
        tail = " ".join(t.strip().splitlines()[-2:])[:300]
        return "signal", "%s %s" % (name, tail)
    return "exit", "exit code %s: %s" % (rc, " ".join(t.strip().splitlines()[-2:])[:300])


def merge_num(dst, src):
    for k, v in src.items():
        if isinstance(v, bool):
            dst[k] = dst.get(k, False) or v
        elif isinstance(v, (int, float)):
            if k in ("max_group", "nested_depth_max"):
                dst[k] = max(dst.get(k, 0), v)
            elif k == "table_orders":
                dst[k] = dst.get(k, 0) ^ v
            else:
                dst[k] = dst.get(k, 0) + v
        elif isinstance(v, dict):
            dst.setdefault(k, {})
            merge_num(dst[k], v)
        elif isinstance(v, list):
            if v and all(isinstance(x, (int, float)) for x in v):
                cur = dst.get(k)
                if not cur:
                    dst[k] = list(v)
                else:
                    dst[k] = [a + b for a, b in zip(cur, v)] + list(v[len(cur):])
            else:
                dst.setdefault(k, [])
                for x in v:
                    if len(dst[k]) < 6 and x not in dst[k]:
                        dst[k].append(x)
        elif isinstance(v, str):
            dst.setdefault(k, v)


class ShardResult:
    def __init__(self):
        self.violations = []   # dicts from V lines (+ crashes)
        self.inconclusive = []  # dicts
        self.summary = {}
        self.processes = 0
        self.restarts = 0
        self.crashes = 0
        self.exhausted = True


def parse_lines(text, res):
    resume = None
    done = None
    for line in text.splitlines():
        if len(line) < 3 or line[1] != " ":
            continue
        tag, body = line[0], line[2:]
        try:
            d = json.loads(body)
        except Exception:
            continue
        if tag == "V":
            res.violations.append(d)
        elif tag == "I":
            res.inconclusive.append(d)
        elif tag == "S":
            merge_num(res.summary, d)
        elif tag == "R":
            resume = d.get("resume_from")
        elif tag == "D":
            done = d
    return resume, done


def run_shard(job, shard, nshards, prop, seed, tag):
    """Run one shard of a job to completion, restarting the worker after hard exits / crashes."""
    res = ShardResult()
    eng = job["engine"]
    cmd0 = engine_cmd(eng)
    env = engine_env(eng)
    lo, hi = job["lo"], job["hi"]
    frm, off = lo, shard
    prog = os.path.join(TMP, "%s.%s.%d.progress" % (tag, job["label"], shard))
    errf = os.path.join(TMP, "%s.%s.%d.stderr" % (tag, job["label"], shard))
    deadline = time.time() + job.get("time_limit", 60.0)
    watchdog = job.get("watchdog", max(120.0, job.get("time_limit", 60.0) * 4))
    guard = 0
    while True:
        guard += 1
        if guard > 100000:
            res.inconclusive.append({"why": "restart guard tripped"})
            break
        remaining = deadline - time.time()
        if remaining <= 0.2 and res.processes > 0:
            res.exhausted = False
            break
        args = list(job["args"]) + ["--prop", prop, "--seed", str(seed), "--from", str(frm), "--to", str(hi),
                                    "--stride", str(nshards), "--offset", str(off), "--progress", prog,
                                    "--time-limit", "%.1f" % max(1.0, remaining)]
        try:
            os.remove(prog)
        except OSError:
            pass
        res.processes += 1
        with open(errf, "w") as ef:
            p = subprocess.Popen(cmd0 + args, cwd=HARNESS, env=env, stdout=subprocess.PIPE, stderr=ef, text=True)
            try:
                out, _ = p.communicate(timeout=watchdog)
                timed_out = False
            except subprocess.TimeoutExpired:
                p.kill()
                out, _ = p.communicate()
                timed_out = True
        rc = p.returncode
        resume, done = parse_lines(out or "", res)
        if timed_out:
            res.inconclusive.append({"why": "watchdog killed worker (engine %s, job %s, shard %d)" % (eng, job["label"], shard)})
            res.exhausted = False
            break
        if rc == 0:
            if done is not None and not done.get("exhausted", True):
                res.exhausted = False
            break
        if rc == 3 and resume is not None:
            res.restarts += 1
            frm, off = resume, 0
            if frm >= hi:
                break
            continue
        # the worker died: attribute to the history in flight
        res.crashes += 1
        try:
            idx = int(open(prog).read().strip())
        except Exception:
            idx = None
        try:
            etxt = open(errf, errors="replace").read()
            etxt = etxt[:6000] + ("\n...\n" + etxt[-14000:] if len(etxt) > 20000 else etxt[6000:])
        except Exception:
            etxt = ""
        kind, detail = classify_death(rc, etxt)
        if kind in ("lsan", "mirileak"):
            # leak report at process exit: the whole batch ran; it is a memory-conservation finding for
            # the batch, not a crash of the last history
            res.crashes -= 1
            res.violations.append({
                "kind": "violation", "prop": "C04", "rule": "mem", "hard": False,
                "msg": "%s reported leaked memory at exit of a batch of histories that all ended with everything destroyed: %s" % ("LeakSanitizer" if kind == "lsan" else "Miri's leak checker", detail),
                "idx": frm, "coord": "%s batch from=%d stride=%d offset=%d (engine %s)" % (job["label"], frm, nshards, off, eng), "class": job.get("class", "WF"),
                "engine": eng, "job_args": job["args"] + ["--stride", str(nshards), "--offset", str(off)], "known_sig": "", "ops": "", "log": etxt.splitlines()[-40:], "batch": True,
            })
            break
        if idx is None:
            res.inconclusive.append({"why": "worker died before its first history (%s: %s)" % (kind, detail)})
            res.exhausted = False
            break
        # confirm by running that single history alone
        cargs = list(job["args"]) + ["--prop", prop, "--seed", str(seed), "--from", str(idx), "--to", str(idx + 1),
                                     "--stride", "1", "--offset", "0", "--progress", prog + ".c"]
        with open(errf + ".c", "w") as ef:
            try:
                cp = subprocess.run(cmd0 + cargs, cwd=HARNESS, env=env, stdout=subprocess.PIPE, stderr=ef, text=True, timeout=watchdog)
                crc, cout = cp.returncode, cp.stdout
            except subprocess.TimeoutExpired:
                crc, cout = None, ""
        ctxt = open(errf + ".c", errors="replace").read()[-20000:]
        cres = ShardResult()
        parse_lines(cout or "", cres)
        if cres.violations:
            # the isolated re-run reported it through the monitor: more informative than the death
            res.violations.extend(cres.violations)
        elif crc not in (0, 3) and crc is not None:
            ckind, cdetail = classify_death(crc, ctxt)
            res.violations.append({
                "kind": "violation", "prop": crash_prop(job.get("class", "WF")), "rule": "once", "hard": True,
                "msg": "process death while executing the history (%s): %s" % (ckind, cdetail),
                "idx": idx, "coord": "%s idx=%d (engine %s)" % (job["label"], idx, eng), "class": job.get("class", "WF"),
                "engine": eng, "job_args": job["args"], "known_sig": "", "ops": "", "log": ctxt.splitlines()[-60:],
                "death": ckind,
            })
        else:
            res.inconclusive.append({"why": "worker died (%s: %s) at history %d but the isolated re-run completed" % (kind, detail, idx)})
        frm, off = idx + nshards, 0
        if frm >= hi:
            break
    return res


def run_scale_job(job, prop, seed, tag):
    """C15: one child process per (shape, N, stack, seed); verdict from exit status and counters."""
    eng = job["engine"]
    cmd0 = engine_cmd(eng)
    env = engine_env(eng)
    cases = [(sh, n, st, sd) for (sh, n) in job["sizes"] for st in job["stacks"] for sd in job.get("seeds", [seed])]
    timeout = 900 if eng == "e3" else 300

    def one(case):
        sh, n, st, sd = case
        r = ShardResult()
        r.processes = 1
        extra = ["--light"] if eng == "e3" else []
        t0 = time.time()
        try:
            p = subprocess.run(cmd0 + ["scale", "--shape", sh, "--n", str(n), "--stack-kib", str(st), "--seed", str(sd)] + extra,
                               cwd=HARNESS, env=env, stdout=subprocess.PIPE, stderr=subprocess.PIPE, text=True, timeout=timeout)
        except subprocess.TimeoutExpired:
            r.inconclusive.append({"why": "scale run %s n=%d timed out (engine %s)" % (sh, n, eng)})
            return r
        coord = "scale shape=%s n=%d stack_kib=%d seed=%d engine=%s" % (sh, n, st, sd, eng)
        data = None
        for line in p.stdout.splitlines():
            if line.startswith("SCALE {"):
                data = json.loads(line[6:])
        problems = []
        if p.returncode != 0 or data is None:
            kind, detail = classify_death(p.returncode, p.stderr[-4000:])
            problems.append("child did not complete (%s: %s)" % (kind, detail))
        else:
            pairs, lb = data["pairs"], data["loopbacks"]
            if sh == "churn":
                # a two-object cycle whose hub adopted and unadopted n peers: probes (100 traces
                # through the hub) before and after the churn, then the collection of the cycle
                if data["small_before_bytes"] != 100 or data["small_after_bytes"] != 100:
                    r.inconclusive.append({"why": "churn probes ran %d / %d traces instead of 100 each" % (data["small_before_bytes"], data["small_after_bytes"])})
                elif data["small_after_cpu_us"] > 20 * data["small_before_cpu_us"] + 10000:
                    # thread CPU time, a factor of 20 and 10 ms of slack; measured once more before it is reported
                    again = None
                    try:
                        p2 = subprocess.run(cmd0 + ["scale", "--shape", sh, "--n", str(n), "--stack-kib", str(st), "--seed", str(sd)] + extra,
                                            cwd=HARNESS, env=env, stdout=subprocess.PIPE, stderr=subprocess.PIPE, text=True, timeout=timeout)
                        for line in p2.stdout.splitlines():
                            if line.startswith("SCALE {"):
                                again = json.loads(line[6:])
                    except subprocess.TimeoutExpired:
                        pass
                    if again is None:
                        r.inconclusive.append({"why": "churn re-measurement did not complete"})
                    elif again["small_after_cpu_us"] > 20 * again["small_before_cpu_us"] + 10000:
                        problems.append("100 traces through a hub with 1 live adoption took %d us before and %d us after it had adopted and unadopted %d peers (second measurement: %d us -> %d us): cost follows adoptions ever made, not adoptions that exist" % (data["small_before_cpu_us"], data["small_after_cpu_us"], n, again["small_before_cpu_us"], again["small_after_cpu_us"]))
                if data["collect_cpu_us"] > 50000 + n // 20:
                    problems.append("collecting a two-object cycle took %d us after its hub had adopted and unadopted %d peers" % (data["collect_cpu_us"], n))
                if data["group_members"] != 2 or data["drops"] != 2 or data["traces"] != 1:
                    problems.append("two-object cycle: %d traces, %d members torn down, %d destructors ran" % (data["traces"], data["group_members"], data["drops"]))
            elif data["traces"] != 1:
                problems.append("%d traces for one drop" % data["traces"])
            # generous linear bounds ("a bounded number of visits per object"): the current algorithm
            # needs N expansions, pairs+1 pops and 2*pairs+same-handle entries; an alternative linear
            # algorithm may need a small multiple of that
            edges_all = pairs + lb
            if data["expansions"] > 2 * n:
                problems.append("%d objects expanded for a group of %d (objects are visited more than twice)" % (data["expansions"], n))
            if data["pops"] > 2 * (n + edges_all) + 1:
                problems.append("%d worklist pops for %d objects and %d adoption records" % (data["pops"], n, edges_all))
            if data["entries"] > 4 * edges_all + 2 * n:
                problems.append("%d table entries scanned for %d objects and %d adoption records" % (data["entries"], n, edges_all))
            if sh == "aftermath":
                # the cost of small collections must not depend on how large a group was collected
                # earlier in the same process (bytes requested are deterministic; CPU time as a backstop)
                if data["small_after_bytes"] > 2 * data["small_before_bytes"] + 65536:
                    problems.append("400 two-object cycles requested %d bytes from the allocator before a %d-object collection and %d bytes after it" % (data["small_before_bytes"], n, data["small_after_bytes"]))
                elif data["small_after_cpu_us"] > 20 * data["small_before_cpu_us"] + 50000:
                    problems.append("400 two-object cycles took %d us before a %d-object collection and %d us after it" % (data["small_before_cpu_us"], n, data["small_after_cpu_us"]))
            if sh != "churn" and (data["group_members"] != n or data["drops"] != n):
                problems.append("group of %d: %d members torn down, %d destructors ran" % (n, data["group_members"], data["drops"]))
            if data["max_depth"] > 1:
                problems.append("destructor nesting depth %d while destroying group members (must stay 1)" % data["max_depth"])
        s = {"histories": 1, "nontrivial": 1, "distinct_nontrivial": 1,
             "samples": [coord + " -> " + (json.dumps(data) if data else "no result")],
             "extra": {"scale_runs": 1, "objects_collected": (data or {}).get("drops", 0), "max_n": 0}}
        if data:
            s["extra"]["collect_ms_total"] = data["collect_ms"]
            s["stats"] = {"begins": data["drops"], "nested_depth_max": data["max_depth"]}
            s["paths"] = {"traces": data["traces"], "pops": data["pops"], "expansions": data["expansions"], "entries": data["entries"], "group": 1, "group_members": data["group_members"]}
        r.summary = s
        r.scale_row = dict(data or {}, engine=eng, wall_s=round(time.time() - t0, 2))
        for pr in problems:
            r.violations.append({"kind": "violation", "prop": "C15", "rule": "scale", "hard": False, "msg": pr + " [" + coord + "]",
                                 "coord": coord, "class": "FULL", "engine": eng, "known_sig": "", "ops": "",
                                 "job_args": ["scale", "--shape", sh, "--n", str(n), "--stack-kib", str(st), "--seed", str(sd)],
                                 "log": (p.stderr or "").splitlines()[-20:], "scale": True})
        return r

    workers = 4 if eng == "e1" else NCPU
    with ThreadPoolExecutor(max_workers=workers) as ex:
        results = list(ex.map(one, cases))
    # growth law on CPU time of the collecting thread (logical steps are covered by the counters;
    # this catches extra work the counters do not see). A verdict needs BOTH a super-linear growth
    # factor between 4N and 16N AND an absolute per-element cost far above normal, and is
    # re-measured once before it is reported.
    if eng == "e1" and job.get("growth"):
        def measure(sh, n, st, sd):
            r = one((sh, n, st, sd))
            return getattr(r, "scale_row", {}) or {}
        rows = {}
        for r in results:
            row = getattr(r, "scale_row", None)
            if row and row.get("shape"):
                rows[(row["shape"], row["n"], row["stack_kib"])] = row
        for (sh, n4, n16) in job["growth"]:
            for st in job["stacks"]:
                a, b = rows.get((sh, n4, st)), rows.get((sh, n16, st))
                if not a or not b or "collect_cpu_us" not in b:
                    continue
                def suspicious(a, b):
                    factor_bad = b["collect_cpu_us"] > 3 * (n16 / n4) * a["collect_cpu_us"] + 100000
                    per_elem = b["collect_cpu_us"] / max(1, b["n"] + b["edges"])
                    return factor_bad and per_elem > 2.0, per_elem
                bad, per_elem = suspicious(a, b)
                note = {"shape": sh, "n_small": n4, "n_large": n16, "cpu_us_small": a["collect_cpu_us"], "cpu_us_large": b["collect_cpu_us"], "us_per_element_large": round(per_elem, 3)}
                results[0].summary.setdefault("extra", {})
                results[0].summary.setdefault("samples", []).append("growth " + json.dumps(note))
                if bad:
                    sd = job.get("seeds", [seed])[0]
                    a2, b2 = measure(sh, n4, st, sd), measure(sh, n16, st, sd)
                    if a2 and b2 and suspicious(a2, b2)[0]:
                        coord = "scale growth shape=%s n=%d->%d stack_kib=%d" % (sh, n4, n16, st)
                        results[0].violations.append({
                            "kind": "violation", "prop": "C15", "rule": "scale", "hard": False,
                            "msg": "collection time is not linear in objects + adoptions: %s (confirmed by a second measurement: %d us -> %d us)" % (json.dumps(note), a2["collect_cpu_us"], b2["collect_cpu_us"]),
                            "coord": coord, "class": "FULL", "engine": eng, "known_sig": "", "ops": "", "scale": True,
                            "job_args": ["scale", "--shape", sh, "--n", str(n16), "--stack-kib", str(st), "--seed", str(sd)], "log": []})
    return results


def run_miri_child_job(job, prop, seed, tag):
    """C16 under Miri: the scenario runs directly under the interpreter (it cannot spawn children)."""
    cmd0 = engine_cmd("e3")
    env = engine_env("e3")

    modes = job.get("modes", ["deadclone"])

    def one(i):
        r = ShardResult()
        r.processes = 1
        mode = modes[i % len(modes)]
        try:
            p = subprocess.run(cmd0 + ["child", "--mode", mode, "--idx", str(i), "--seed", str(seed), "--light"],
                               cwd=HARNESS, env=env, stdout=subprocess.PIPE, stderr=subprocess.PIPE, text=True, timeout=600)
        except subprocess.TimeoutExpired:
            r.inconclusive.append({"why": "miri child %d timed out" % i})
            return r
        out, err = p.stdout, p.stderr
        before = "BEFORE-CLONE" in out
        after = "AFTER-CLONE" in out
        desc = next((l[11:] for l in out.splitlines() if l.startswith("CHILD-DESC ")), "")
        ops = next((l[10:] for l in out.splitlines() if l.startswith("CHILD-OPS ")), "")
        coord = "%s(miri) seed=%d idx=%d [%s]" % (mode, seed, i, desc)
        s = {"histories": 1, "nontrivial": 1 if before else 0, "distinct_nontrivial": 1 if before else 0,
             "samples": [coord + " :: " + ops], "stats": {"dead_clones_attempted": 1 if before else 0}}
        r.summary = s
        bad = None
        if before:
            aborted = "the program aborted execution" in err or "abnormal termination" in err
            if after or not aborted:
                bad = "under Miri, cloning a handle to a destroyed object did not abort (AFTER-CLONE printed: %s; rc %s; %s)" % (after, p.returncode, classify_death(p.returncode, err)[1])
        else:
            if p.returncode != 0:
                kind, detail = classify_death(p.returncode, err)
                bad = "scenario without a dead clone did not complete under Miri (%s: %s)" % (kind, detail)
        if bad:
            r.violations.append({"kind": "violation", "prop": "C16", "rule": "deadclone", "hard": True, "msg": bad, "coord": coord,
                                 "class": "DEAD", "engine": "e3", "known_sig": "", "ops": ops, "log": err.splitlines()[-30:],
                                 "job_args": ["child", "--mode", mode, "--idx", str(i), "--seed", str(seed)], "child": True})
        return r

    with ThreadPoolExecutor(max_workers=NCPU) as ex:
        return list(ex.map(one, range(job["count"])))


def run_job(job, prop, seed, tag):
    if job.get("kind") == "scale":
        return run_scale_job(job, prop, seed, tag)
    if job.get("kind") == "miri-child":
        return run_miri_child_job(job, prop, seed, tag)
    nshards = job.get("shards", NCPU)
    results = []
    with ThreadPoolExecutor(max_workers=nshards) as ex:
        futs = [ex.submit(run_shard, job, s, nshards, prop, seed, tag) for s in range(nshards)]
        for f in futs:
            results.append(f.result())
    return results


# ---------------------------------------------------------------------------------------------

def load_known():
    p = os.path.join(VERIF, "known_findings.json")
    if not os.path.exists(p):
        return []
    with open(p) as f:
        return json.load(f).get("findings", [])


def write_replay(prop, v):
    os.makedirs(os.path.join(VERIF, "replays"), exist_ok=True)
    h = hashlib.sha1(json.dumps([v.get("ops"), v.get("msg"), v.get("coord")], sort_keys=True).encode()).hexdigest()[:12]
    path = os.path.join(VERIF, "replays", "%s-%s.json" % (prop, h))
    with open(path, "w") as f:
        json.dump(v, f, indent=1)
    return path


def cmd_check(prop, tier, seed, only_engines=None, evidence=True):
    t0 = time.time()
    os.makedirs(TMP, exist_ok=True)
    tag = "%s.%s.%d" % (prop, tier, os.getpid())
    plan = plans.plan(prop, tier, seed)
    if plan is None:
        raise SystemExit("no plan for %s" % prop)
    if only_engines:
        plan["jobs"] = [j for j in plan["jobs"] if engine_base(j["engine"]) in only_engines]
        plan["require"] = {}
    engines = sorted({engine_base(j["engine"]) for j in plan["jobs"]})
    build_s = {}
    for e in engines:
        build_s[e] = round(build_engine(e), 1)
    log("[%s/%s] engines built %s, %d job(s), seed %d" % (prop, tier, build_s, len(plan["jobs"]), seed))
    known_all = [k for k in load_known() if k.get("status") == "known"]
    known = [k for k in known_all if k.get("property") == prop]
    accept = {tuple(x) for x in plan.get("accept_foreign", [])}
    total = {}
    per_job = []
    own, foreign, known_hits, inconclusive = [], [], {}, []
    processes = restarts = crashes = 0
    job_samples = []
    for job in plan["jobs"]:
        tj = time.time()
        rs = run_job(job, prop, seed, tag)
        js = {}
        jv = 0
        for r in rs:
            merge_num(js, r.summary)
            processes += r.processes
            restarts += r.restarts
            crashes += r.crashes
            for i in r.inconclusive:
                inconclusive.append(i)
            for v in r.violations:
                v.setdefault("engine", job["engine"])
                v.setdefault("job", job["label"])
                v.setdefault("job_args", job["args"])
                jv += 1
                sig0 = v.get("known_sig") or ""
                other = next((k for k in known_all if sig0 and k.get("signature", {}).get("sig") == sig0 and k.get("property") != prop), None)
                if other is not None:
                    # a documented finding of another property surfaced in this workload (e.g. the
                    # stale-record finding of C13 in a scripted history): it belongs to that property
                    v["prop"] = other["property"]
                    foreign.append(v)
                    continue
                if v.get("prop") != prop:
                    # a rule that belongs to another property by workload class may also express
                    # this property (listed explicitly in the plan)
                    acc = (v.get("prop"), v.get("rule")) in accept or (v.get("hard") and (v.get("prop"), v.get("rule"), "hard") in accept)
                    if acc and not (v.get("known_sig") or ""):
                        v["reattributed_from"] = v.get("prop")
                        v["prop"] = prop
                    else:
                        foreign.append(v)
                        continue
                sig = v.get("known_sig") or ""
                match = next((k for k in known if sig and k.get("signature", {}).get("sig") == sig), None)
                if match is not None:
                    known_hits.setdefault(sig, {"entry": match, "count": 0, "sample": v})
                    known_hits[sig]["count"] += 1
                else:
                    own.append(v)
        merge_num(total, js)
        for smp in (js.get("samples") or [])[-2:]:
            job_samples.append("[%s] %s" % (job["label"], smp[:1500]))
        per_job.append({
            "label": job["label"], "engine": job["engine"], "class": job.get("class"), "args": " ".join(job["args"]) or job.get("kind", ""),
            "scale_table": [getattr(r, "scale_row") for r in rs if hasattr(r, "scale_row")] or None,
            "index_range": [job.get("lo", 0), job.get("hi", 0)], "histories": js.get("histories", 0), "nontrivial": js.get("nontrivial", 0),
            "reported": jv, "exhausted_range": all(r.exhausted for r in rs), "wall_s": round(time.time() - tj, 1),
        })
        log("  job %-28s engine=%s histories=%d nontrivial=%d reported=%d (%.1fs)" % (
            job["label"], job["engine"], js.get("histories", 0), js.get("nontrivial", 0), jv, time.time() - tj))
    # verdict
    for sig, k in known_hits.items():
        log("KNOWN-FINDING: property=%s %s [%d occurrence(s) this run; signature %s]" % (prop, k["entry"].get("what", ""), k["count"], sig))
    replay_paths = []
    seen_msgs = set()
    for v in own:
        key = (v.get("rule"), (v.get("msg") or "")[:80])
        if key in seen_msgs and len(replay_paths) >= 5:
            continue
        seen_msgs.add(key)
        if len(replay_paths) < 25:
            path = write_replay(prop, v)
            replay_paths.append(path)
            log("VIOLATION property=%s replay=%s" % (prop, path))
            log("    rule=%s engine=%s %s" % (v.get("rule"), v.get("engine"), (v.get("msg") or "")[:300]))
    fsum = {}
    for v in foreign:
        fsum[v.get("prop")] = fsum.get(v.get("prop"), 0) + 1
    if fsum:
        log("  note: rules of other properties fired in this workload (reported by their own checks): %s" % fsum)
    evaluations = int(total.get("histories", 0))
    distinct = int(total.get("distinct_nontrivial", 0))
    wall = round(time.time() - t0, 1)
    ev = {
        "property_id": prop,
        "tier": tier,
        "seed": seed,
        "level": plan["level"],
        "coverage": {
            "evaluations": evaluations,
            "distinct_nontrivial": distinct,
            "rule": plan["rule"],
            "samples": job_samples[:24] or ["<none>"],
            "exhaustive": bool(plan.get("exhaustive")) and all(j["exhausted_range"] for j in per_job),
            "nontrivial": int(total.get("nontrivial", 0)),
            "jobs": per_job,
            "engines": {e: ENGINES[e]["desc"] for e in engines},
            "engine_build_s": build_s,
            "worker_processes": processes,
            "worker_restarts_after_hard_violation": restarts,
            "worker_deaths": crashes,
            "monitor_observations": total.get("stats", {}),
            "teardown_paths_observed": total.get("paths", {}),
            "alloc_modes_plain_quarantine_scatter": total.get("alloc_modes", []),
            "histories_ending_with_everything_destroyed": total.get("all_dead", 0),
            "histories_with_multiple_table_orders": total.get("multi_order_tables", 0),
            "inconclusive": len(inconclusive),
            "inconclusive_reasons": sorted({(i.get("why") or "")[:160] for i in inconclusive})[:10],
            "foreign_rule_hits": fsum,
            "known_finding_hits": {s: k["count"] for s, k in known_hits.items()},
            "extra": total.get("extra", {}),
        },
        "assumptions": plan["assumptions"],
        "wall_s": wall,
        "violations": len(own),
    }
    if plan.get("translation"):
        ev["coverage"]["programs"] = evaluations
        ev["coverage"]["disagreements_checked"] = len(own)
    os.makedirs(os.path.join(VERIF, "evidence"), exist_ok=True)
    if evidence:
        with open(os.path.join(VERIF, "evidence", "%s.json" % prop), "w") as f:
            json.dump(ev, f, indent=1)
    # clean temp files of this run
    for fn in os.listdir(TMP):
        if fn.startswith(tag + "."):
            try:
                os.remove(os.path.join(TMP, fn))
            except OSError:
                pass
    log("[%s/%s] evaluations=%d distinct_nontrivial=%d violations=%d known=%d inconclusive=%d foreign=%s wall=%.1fs" % (
        prop, tier, evaluations, distinct, len(own), sum(k["count"] for k in known_hits.values()), len(inconclusive), fsum, wall))
    if own:
        return 1
    need = plan.get("require", {})
    problems = []
    if evaluations == 0 or distinct < 2:
        problems.append("nothing non-trivial was observed")
    for key, minimum in need.items():
        cur = total
        for part in key.split("."):
            cur = cur.get(part, {}) if isinstance(cur, dict) else {}
        val = cur if isinstance(cur, (int, float)) else 0
        if val < minimum:
            problems.append("required observation %s >= %s not reached (%s)" % (key, minimum, val))
    if problems:
        log("INCONCLUSIVE (check did not observe what it must): " + "; ".join(problems))
        return 2
    return 0


def cmd_replay(path):
    with open(path) as f:
        v = json.load(f)
    eng = v.get("engine", "e1")
    build_engine(eng)
    cmd = engine_cmd(eng)
    env = engine_env(eng)
    if v.get("scale") or v.get("child"):
        args = list(v["job_args"])
    elif v.get("ops"):
        args = ["replay", "--class", v.get("class", "WF"), "--ops", v["ops"], "--layout-seed", str(v.get("layout_seed", 1)),
                "--alloc", {0: "plain", 1: "quar", 2: "scatter"}.get(v.get("alloc_mode", 0), "plain")]
    else:
        idx = v.get("idx", 0)
        args = list(v.get("job_args", [])) + ["--from", str(idx), "--to", str(idx + 1), "--seed", str(v.get("seed", 1)), "--prop", v.get("prop", "C00")]
    p = subprocess.run(cmd + args, cwd=HARNESS, env=env)
    return p.returncode


def main():
    if len(sys.argv) >= 2 and sys.argv[1] == "replay":
        sys.exit(cmd_replay(sys.argv[2]))
    if len(sys.argv) >= 2 and sys.argv[1] == "build":
        names = sys.argv[2:] or ["e1", "e2", "e3"]
        os.makedirs(TMP, exist_ok=True)
        for n in names:
            log("building %s ... %.1fs" % (n, build_engine(n)))
        sys.exit(0)
    ap = argparse.ArgumentParser()
    ap.add_argument("prop")
    ap.add_argument("--tier", default=os.environ.get("VERIF_TIER", "quick"), choices=["quick", "thorough"])
    ap.add_argument("--seed", type=int, default=int(os.environ.get("VERIF_SEED", "1")))
    ap.add_argument("--engines", default=None, help="comma separated subset of engines (self-tests only; the evidence file is not written)")
    a = ap.parse_args()
    only = set(a.engines.split(",")) if a.engines else None
    sys.exit(cmd_check(a.prop, a.tier, a.seed, only, evidence=only is None))


if __name__ == "__main__":
    main()
