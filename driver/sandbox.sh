#!/bin/bash
# Development helper: a private copy of /verif (without build output) wired to a scratch worktree of
# /repo, so that self-tests (which patch the repository) can run without touching /repo itself.
# Usage: sandbox.sh <dir>   -> creates <dir>/repo (git worktree of /repo HEAD) and <dir>/verif
# Registered checks never use this; they always build from /repo.
set -e
D=$1
mkdir -p "$D"
if [ ! -d "$D/repo" ]; then git -C /repo worktree add -q --detach "$D/repo" HEAD; else git -C "$D/repo" checkout -q --detach "$(git -C /repo rev-parse HEAD)"; git -C "$D/repo" checkout -q -- .; fi
rsync -a --delete --exclude target --exclude replays --exclude .git /verif/ "$D/verif/"
sed -i "s#path = \"/repo\"#path = \"$D/repo\"#" "$D/verif/harness/Cargo.toml"
mkdir -p "$D/verif/replays"
echo "sandbox ready: SELFTEST_REPO=$D/repo python3 $D/verif/driver/selftest.py ..."
