#!/usr/bin/env python3
"""Applies each patch (self-test mutants under mutants/, seeded changes under seeded/) to /repo,
runs the quick check(s) of the property it targets, records whether the check fired, and restores
/repo. Usage: selftest.py [--engines e1] [--only name,...] [--props C01,C02 (override)] [--dir mutants|seeded]
Never leaves a patch applied (git -C /repo checkout -- .)."""
import argparse, json, os, subprocess, sys, time
VERIF = os.path.dirname(os.path.dirname(os.path.abspath(__file__)))
REPO = os.environ.get("SELFTEST_REPO", "/repo")  # a sandbox copy may be used for development loops

def sh(cmd, **kw):
    return subprocess.run(cmd, stdout=subprocess.PIPE, stderr=subprocess.STDOUT, text=True, **kw)

def clean_repo():
    sh(["git", "-C", REPO, "checkout", "--", "."])
    st = sh(["git", "-C", REPO, "status", "--porcelain"]).stdout.strip()
    if st:
        print("WARNING: /repo not clean:", st)

def items(which):
    out = []
    if which == "mutants":
        meta = json.load(open(os.path.join(VERIF, "mutants", "mutants.json")))
        for m in meta:
            out.append((m["mutant"], os.path.join(VERIF, "mutants", m["mutant"] + ".patch"), [m["target"]], m))
    else:
        base = os.path.join(VERIF, "seeded")
        for d in sorted(os.listdir(base)):
            mp = os.path.join(base, d, "meta.json")
            if os.path.exists(mp):
                m = json.load(open(mp))
                out.append((d, os.path.join(base, d, "patch.diff"), [m["property"]] + m.get("also_check", []), m))
    return out

def main():
    ap = argparse.ArgumentParser()
    ap.add_argument("--engines", default=None)
    ap.add_argument("--only", default=None)
    ap.add_argument("--props", default=None)
    ap.add_argument("--dir", default="mutants")
    ap.add_argument("--seed", default="1")
    a = ap.parse_args()
    only = set(a.only.split(",")) if a.only else None
    rows = []
    clean_repo()
    for name, patch, props, meta in items(a.dir):
        if only and name not in only:
            continue
        if a.props:
            props = a.props.split(",")
        r = sh(["git", "-C", REPO, "apply", patch])
        if r.returncode != 0:
            print(name, "PATCH DOES NOT APPLY", r.stdout[-300:])
            rows.append({"name": name, "applies": False})
            clean_repo()
            continue
        try:
            for prop in props:
                t0 = time.time()
                cmd = ["python3", os.path.join(VERIF, "driver", "run_check.py"), prop, "--tier", "quick", "--seed", a.seed]
                cmd += ["--engines", a.engines or "e1,e2,e3"]
                p = sh(cmd, cwd=VERIF)
                fired = p.returncode == 1 and ("VIOLATION property=%s" % prop) in p.stdout
                first = next((l.strip() for l in p.stdout.splitlines() if l.strip().startswith("rule=")), "")
                foreign = next((l.strip() for l in p.stdout.splitlines() if "rules of other properties fired" in l), "")
                rows.append({"name": name, "property": prop, "fired": fired, "rc": p.returncode, "first": first[:300], "foreign": foreign[-200:], "wall_s": round(time.time() - t0, 1)})
                print("%-40s %s %s rc=%d %.0fs %s %s" % (name, prop, "CAUGHT" if fired else "MISSED", p.returncode, time.time() - t0, first[:160], foreign[-120:]), flush=True)
                if p.returncode not in (0, 1):
                    print(p.stdout[-800:])
        finally:
            clean_repo()
    os.makedirs(os.path.join(VERIF, "selftest"), exist_ok=True)
    outp = os.path.join(VERIF, "selftest", "%s%s.json" % (a.dir, "" if not only else "_partial"))
    json.dump({"engines": a.engines or "e1,e2,e3", "seed": a.seed, "rows": rows}, open(outp, "w"), indent=1)
    if a.dir == "seeded":
        for r in rows:
            mp = os.path.join(VERIF, "seeded", r["name"], "meta.json")
            if os.path.exists(mp) and "property" in r:
                m = json.load(open(mp))
                m.setdefault("caught_by", {})
                m["caught_by"][r["property"]] = {"fired": r["fired"], "engines": a.engines or "e1,e2,e3", "first_report": r.get("first", "")}
                m["ran"] = "driver/selftest.py --dir seeded: git -C /repo apply patch.diff; python3 driver/run_check.py <property> --tier quick; git -C /repo checkout -- ."
                json.dump(m, open(mp, "w"), indent=1)

main()
