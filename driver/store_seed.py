#!/usr/bin/env python3
"""Confirm a sub-agent's seeded change in a scratch worktree and file it under seeded/<id>/.

usage: store_seed.py <scratch-worktree> <dir with patch.diff demo.rs notes.md> <id> <property>
                     <round label> <needs_to_manifest text> [also_check,...]

Nothing is stored unless driver/verify_seed.py confirms the change (applies, touches only src/,
unedited suite passes with it, demonstration fails with it and passes without it).
"""
import json, os, re, shutil, subprocess, sys

HERE = os.path.dirname(os.path.abspath(__file__))
ROOT = os.path.dirname(HERE)


def main():
    wt, src, sid, prop, rnd, needs = sys.argv[1:7]
    also = [x for x in (sys.argv[7].split(",") if len(sys.argv) > 7 else []) if x]
    out = subprocess.run([sys.executable, os.path.join(HERE, "verify_seed.py"), wt, src], capture_output=True, text=True)
    m = re.search(r"\{.*\}", out.stdout, re.S)
    if not m:
        print("verify_seed produced no verdict:\n" + out.stdout[-2000:] + out.stderr[-2000:])
        sys.exit(2)
    v = json.loads(m.group(0))
    if not v.get("confirmed"):
        print("NOT CONFIRMED", json.dumps({k: v[k] for k in v if not k.endswith("_tail")}, indent=1))
        sys.exit(1)
    dst = os.path.join(ROOT, "seeded", sid)
    os.makedirs(dst, exist_ok=True)
    for f in ("patch.diff", "demo.rs", "notes.md"):
        if os.path.exists(os.path.join(src, f)):
            shutil.copy(os.path.join(src, f), os.path.join(dst, f))
    files = sorted(set(re.findall(r"^\+\+\+ b/(\S+)", open(os.path.join(dst, "patch.diff")).read(), re.M)))
    meta = {
        "property": prop,
        "origin": "independent sub-agent (%s round), given only the property text and a scratch worktree" % rnd,
        "needs_to_manifest": needs,
        "files": files,
        "confirmed_by": "driver/verify_seed.py in a scratch worktree: patch applies; unedited suite (39 tests + doctests) passes with it; demo.rs fails with it and passes without",
        "verify": {k: v[k] for k in ("applies", "touches_only_src", "suite_passes_with_patch", "demo_fails_with_patch", "demo_passes_without_patch")},
    }
    if also:
        meta["also_check"] = also
    json.dump(meta, open(os.path.join(dst, "meta.json"), "w"), indent=1)
    print("stored", dst)


if __name__ == "__main__":
    main()
