#!/usr/bin/env python3
"""Independently confirms a seeded change produced by a sub-agent, in a scratch worktree:
 patch applies; the unedited suite passes with it; the demonstration fails with it and passes without.
Usage: verify_seed.py <scratch worktree> <dir with patch.diff + demo.rs> ; prints a JSON verdict."""
import json, os, shutil, subprocess, sys
WT, D = sys.argv[1], sys.argv[2]
env = dict(os.environ, CARGO_TARGET_DIR=os.path.join(WT, "target"), CARGO_NET_OFFLINE="true")
def sh(cmd, **kw):
    return subprocess.run(cmd, cwd=WT, env=env, stdout=subprocess.PIPE, stderr=subprocess.STDOUT, text=True, **kw)
def clean():
    sh(["git", "checkout", "-q", "--", "."])
    try: os.remove(os.path.join(WT, "tests", "demo.rs"))
    except OSError: pass
res = {"dir": D}
clean()
a = sh(["git", "apply", "--check", os.path.join(D, "patch.diff")])
res["applies"] = a.returncode == 0
if not res["applies"]:
    print(json.dumps(res)); sys.exit(1)
sh(["git", "apply", os.path.join(D, "patch.diff")])
files = sh(["git", "diff", "--name-only"]).stdout.split()
res["files"] = files
res["touches_only_src"] = all(f.startswith("src/") for f in files)
t = sh(["cargo", "test", "--offline", "--workspace", "--no-fail-fast"], timeout=1800)
res["suite_passes_with_patch"] = t.returncode == 0
shutil.copy(os.path.join(D, "demo.rs"), os.path.join(WT, "tests", "demo.rs"))
d1 = sh(["cargo", "test", "--offline", "--test", "demo"], timeout=1800)
res["demo_fails_with_patch"] = d1.returncode != 0
res["demo_with_patch_tail"] = d1.stdout[-600:]
sh(["git", "checkout", "-q", "--", "src"])
d0 = sh(["cargo", "test", "--offline", "--test", "demo"], timeout=1800)
res["demo_passes_without_patch"] = d0.returncode == 0
if d0.returncode != 0:
    res["demo_without_patch_tail"] = d0.stdout[-600:]
clean()
res["confirmed"] = all([res["applies"], res["touches_only_src"], res["suite_passes_with_patch"], res["demo_fails_with_patch"], res["demo_passes_without_patch"]])
print(json.dumps(res, indent=1))
