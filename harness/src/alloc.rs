//! MonAlloc: monitoring global allocator (engine E1).
//!
//! * attributes every block to the *library* (allocated while control is inside a cactusref API
//!   call and not inside a user callback) or to the *harness*;
//! * exact counters per origin;
//! * detects double / invalid frees and frees with a wrong layout (never forwarded to `System`);
//! * `Quarantine` mode: freed library blocks are filled with 0xDD, kept out of circulation until
//!   the end of the history and re-verified -> write-after-free is detected deterministically and
//!   a library read-after-free yields impossible values;
//! * `Scatter` mode: library blocks are placed at a pseudo-random 16-byte multiple offset inside
//!   an over-sized block and random dummy allocations are interleaved -> different addresses,
//!   hence different FxHash values and link-table iteration orders.
//!
//! The process is single-threaded by construction (one active thread at a time); a spin flag
//! guards the table anyway. With feature `monalloc` off every entry point is a cheap no-op so
//! the rest of the harness can call it unconditionally.

#![allow(static_mut_refs)]

use std::alloc::{GlobalAlloc, Layout, System};
use std::sync::atomic::{AtomicBool, AtomicU64, AtomicU8, AtomicUsize, Ordering::Relaxed, Ordering::SeqCst};

pub struct MonAlloc;

pub const MODE_PLAIN: u8 = 0;
pub const MODE_QUARANTINE: u8 = 1;
pub const MODE_SCATTER: u8 = 2;

static IN_LIB: AtomicBool = AtomicBool::new(false);
static MODE: AtomicU8 = AtomicU8::new(MODE_PLAIN);
static BYPASS: AtomicBool = AtomicBool::new(false);
static BYPASS_BYTES: AtomicU64 = AtomicU64::new(0);

/// bytes requested while in bypass mode (C15 aftermath experiment)
pub fn bypass_bytes() -> u64 {
    BYPASS_BYTES.load(Relaxed)
}

/// Scaling runs (C15) allocate millions of blocks and need no accounting: forward to System.
pub fn set_bypass(b: bool) {
    BYPASS.store(b, Relaxed);
}
static SCATTER_STATE: AtomicU64 = AtomicU64::new(0x1234_5678_9ABC_DEF1);

pub static LIB_ALLOCS: AtomicUsize = AtomicUsize::new(0);
pub static LIB_FREES: AtomicUsize = AtomicUsize::new(0);
pub static LIB_LIVE_BLOCKS: AtomicUsize = AtomicUsize::new(0);
pub static LIB_LIVE_BYTES: AtomicUsize = AtomicUsize::new(0);
pub static INVALID_FREES: AtomicUsize = AtomicUsize::new(0);
pub static LAYOUT_MISMATCH: AtomicUsize = AtomicUsize::new(0);
pub static WRITE_AFTER_FREE: AtomicUsize = AtomicUsize::new(0);
static SERIAL: AtomicU64 = AtomicU64::new(1);
static LAST_LIB_ALLOC_ADDR: AtomicUsize = AtomicUsize::new(0);
static LAST_LIB_ALLOC_SIZE: AtomicUsize = AtomicUsize::new(0);
static LAST_LIB_ALLOC_SERIAL: AtomicU64 = AtomicU64::new(0);
static FAULT_ADDR: AtomicUsize = AtomicUsize::new(0);

pub const ENABLED: bool = cfg!(feature = "monalloc");

/// Enter library context; returns the previous flag to be passed to `leave`.
#[inline]
pub fn enter_lib() -> bool {
    IN_LIB.swap(true, Relaxed)
}
/// Enter user-callback (harness) context from inside a library call.
#[inline]
pub fn enter_user() -> bool {
    IN_LIB.swap(false, Relaxed)
}
#[inline]
pub fn restore(prev: bool) {
    IN_LIB.store(prev, Relaxed);
}

pub fn set_mode(mode: u8, seed: u64) {
    MODE.store(mode, Relaxed);
    SCATTER_STATE.store(seed | 1, Relaxed);
}
pub fn mode() -> u8 {
    MODE.load(Relaxed)
}

#[derive(Clone, Copy, Debug, Default)]
pub struct Counters {
    pub lib_allocs: usize,
    pub lib_frees: usize,
    pub lib_live_blocks: usize,
    pub lib_live_bytes: usize,
    pub invalid_frees: usize,
    pub layout_mismatch: usize,
    pub write_after_free: usize,
}

pub fn counters() -> Counters {
    Counters {
        lib_allocs: LIB_ALLOCS.load(Relaxed),
        lib_frees: LIB_FREES.load(Relaxed),
        lib_live_blocks: LIB_LIVE_BLOCKS.load(Relaxed),
        lib_live_bytes: LIB_LIVE_BYTES.load(Relaxed),
        invalid_frees: INVALID_FREES.load(Relaxed),
        layout_mismatch: LAYOUT_MISMATCH.load(Relaxed),
        write_after_free: WRITE_AFTER_FREE.load(Relaxed),
    }
}

pub fn fault_addr() -> usize {
    FAULT_ADDR.load(Relaxed)
}

/// (user address, size, serial) of the most recent library-origin allocation.
pub fn last_lib_alloc() -> (usize, usize, u64) {
    (
        LAST_LIB_ALLOC_ADDR.load(Relaxed),
        LAST_LIB_ALLOC_SIZE.load(Relaxed),
        LAST_LIB_ALLOC_SERIAL.load(Relaxed),
    )
}

// ---------------------------------------------------------------------------------------------
// side table

const F_USED: u8 = 1;
const F_TOMB: u8 = 2;
const F_LIB: u8 = 4;
const F_QUAR: u8 = 8;
const F_SCAT: u8 = 16;

#[derive(Clone, Copy)]
struct Entry {
    addr: usize,
    base: usize,
    size: usize,
    total: usize,
    align: usize,
    serial: u64,
    flags: u8,
}

const EMPTY: Entry = Entry { addr: 0, base: 0, size: 0, total: 0, align: 0, serial: 0, flags: 0 };

struct Table {
    ents: *mut Entry,
    cap: usize,
    used: usize, // used + tombstones
    quarantine: *mut usize,
    qlen: usize,
    qcap: usize,
    dummies: *mut (usize, usize),
    dlen: usize,
    dcap: usize,
}

static mut TABLE: Table = Table {
    ents: std::ptr::null_mut(),
    cap: 0,
    used: 0,
    quarantine: std::ptr::null_mut(),
    qlen: 0,
    qcap: 0,
    dummies: std::ptr::null_mut(),
    dlen: 0,
    dcap: 0,
};
static LOCK: AtomicBool = AtomicBool::new(false);

struct Guard;
impl Guard {
    fn new() -> Guard {
        while LOCK.swap(true, SeqCst) {
            std::hint::spin_loop();
        }
        Guard
    }
}
impl Drop for Guard {
    fn drop(&mut self) {
        LOCK.store(false, SeqCst);
    }
}

#[inline]
fn hash(addr: usize) -> usize {
    let x = (addr as u64 >> 4).wrapping_mul(0x9E37_79B9_7F4A_7C15);
    (x >> 20) as usize
}

unsafe fn sys_array<T>(n: usize) -> *mut T {
    let l = Layout::array::<T>(n).unwrap();
    let p = System.alloc_zeroed(l) as *mut T;
    if p.is_null() {
        std::process::abort();
    }
    p
}
unsafe fn sys_free_array<T>(p: *mut T, n: usize) {
    if !p.is_null() {
        System.dealloc(p as *mut u8, Layout::array::<T>(n).unwrap());
    }
}

impl Table {
    unsafe fn grow(&mut self) {
        let newcap = if self.cap == 0 { 1 << 14 } else { self.cap * 2 };
        let old = self.ents;
        let oldcap = self.cap;
        self.ents = sys_array::<Entry>(newcap);
        self.cap = newcap;
        self.used = 0;
        for i in 0..oldcap {
            let e = *old.add(i);
            if e.flags & F_USED != 0 {
                self.insert_raw(e);
            }
        }
        sys_free_array(old, oldcap);
    }
    unsafe fn insert_raw(&mut self, e: Entry) {
        let mask = self.cap - 1;
        let mut i = hash(e.addr) & mask;
        loop {
            let cur = &mut *self.ents.add(i);
            if cur.flags & F_USED == 0 {
                if cur.flags & F_TOMB == 0 {
                    self.used += 1;
                }
                *cur = e;
                return;
            }
            i = (i + 1) & mask;
        }
    }
    unsafe fn insert(&mut self, e: Entry) {
        if self.cap == 0 || (self.used + 1) * 2 > self.cap {
            self.grow();
        }
        self.insert_raw(e);
    }
    unsafe fn find(&mut self, addr: usize) -> Option<*mut Entry> {
        if self.cap == 0 {
            return None;
        }
        let mask = self.cap - 1;
        let mut i = hash(addr) & mask;
        loop {
            let cur = self.ents.add(i);
            let f = (*cur).flags;
            if f & F_USED != 0 {
                if (*cur).addr == addr {
                    return Some(cur);
                }
            } else if f & F_TOMB == 0 {
                return None;
            }
            i = (i + 1) & mask;
        }
    }
    unsafe fn remove(&mut self, e: *mut Entry) {
        *e = EMPTY;
        (*e).flags = F_TOMB;
    }
    unsafe fn push_q(&mut self, addr: usize) {
        if self.qlen == self.qcap {
            let ncap = if self.qcap == 0 { 1024 } else { self.qcap * 2 };
            let n = sys_array::<usize>(ncap);
            std::ptr::copy_nonoverlapping(self.quarantine, n, self.qlen);
            sys_free_array(self.quarantine, self.qcap);
            self.quarantine = n;
            self.qcap = ncap;
        }
        *self.quarantine.add(self.qlen) = addr;
        self.qlen += 1;
    }
    unsafe fn push_d(&mut self, d: (usize, usize)) {
        if self.dlen == self.dcap {
            let ncap = if self.dcap == 0 { 1024 } else { self.dcap * 2 };
            let n = sys_array::<(usize, usize)>(ncap);
            std::ptr::copy_nonoverlapping(self.dummies, n, self.dlen);
            sys_free_array(self.dummies, self.dcap);
            self.dummies = n;
            self.dcap = ncap;
        }
        *self.dummies.add(self.dlen) = d;
        self.dlen += 1;
    }
}

fn scatter_next() -> u64 {
    let mut x = SCATTER_STATE.load(Relaxed);
    x ^= x << 13;
    x ^= x >> 7;
    x ^= x << 17;
    SCATTER_STATE.store(x, Relaxed);
    x
}

#[cfg(feature = "monalloc")]
unsafe impl GlobalAlloc for MonAlloc {
    unsafe fn alloc(&self, layout: Layout) -> *mut u8 {
        if BYPASS.load(Relaxed) {
            BYPASS_BYTES.fetch_add(layout.size() as u64, Relaxed);
            return System.alloc(layout);
        }
        let lib = IN_LIB.load(Relaxed);
        let _g = Guard::new();
        let mode = MODE.load(Relaxed);
        let mut scat = 0u8;
        let (base, addr, total) = if lib && mode == MODE_SCATTER && layout.align() <= 16 {
            scat = F_SCAT;
            let r = scatter_next();
            if r & 0x300 == 0 {
                // interleave an unrelated allocation that stays live until the end of the history
                let dsz = 16 + ((r >> 12) & 0x1F0) as usize;
                let d = System.alloc(Layout::from_size_align_unchecked(dsz, 16));
                if !d.is_null() {
                    TABLE.push_d((d as usize, dsz));
                }
            }
            let pad = (((r >> 24) & 0x1F) as usize) * 16;
            let total = layout.size() + pad;
            let b = System.alloc(Layout::from_size_align_unchecked(total.max(1), 16));
            if b.is_null() {
                return b;
            }
            (b as usize, b as usize + pad, total.max(1))
        } else {
            let b = System.alloc(layout);
            if b.is_null() {
                return b;
            }
            (b as usize, b as usize, layout.size())
        };
        let serial = SERIAL.fetch_add(1, Relaxed);
        TABLE.insert(Entry {
            addr,
            base,
            size: layout.size(),
            total,
            align: layout.align(),
            serial,
            flags: F_USED | scat | if lib { F_LIB } else { 0 },
        });
        if lib {
            LIB_ALLOCS.fetch_add(1, Relaxed);
            LIB_LIVE_BLOCKS.fetch_add(1, Relaxed);
            LIB_LIVE_BYTES.fetch_add(layout.size(), Relaxed);
            LAST_LIB_ALLOC_ADDR.store(addr, Relaxed);
            LAST_LIB_ALLOC_SIZE.store(layout.size(), Relaxed);
            LAST_LIB_ALLOC_SERIAL.store(serial, Relaxed);
        }
        addr as *mut u8
    }

    unsafe fn dealloc(&self, ptr: *mut u8, layout: Layout) {
        if BYPASS.load(Relaxed) {
            return System.dealloc(ptr, layout);
        }
        let _g = Guard::new();
        let e = match TABLE.find(ptr as usize) {
            Some(e) if (*e).flags & F_QUAR == 0 => e,
            _ => {
                // double free or free of something that was never allocated: record, never forward
                INVALID_FREES.fetch_add(1, Relaxed);
                FAULT_ADDR.store(ptr as usize, Relaxed);
                return;
            }
        };
        if (*e).size != layout.size() || (*e).align != layout.align() {
            LAYOUT_MISMATCH.fetch_add(1, Relaxed);
            FAULT_ADDR.store(ptr as usize, Relaxed);
        }
        let lib = (*e).flags & F_LIB != 0;
        if lib {
            LIB_FREES.fetch_add(1, Relaxed);
            LIB_LIVE_BLOCKS.fetch_sub(1, Relaxed);
            LIB_LIVE_BYTES.fetch_sub((*e).size, Relaxed);
        }
        if lib && MODE.load(Relaxed) == MODE_QUARANTINE {
            std::ptr::write_bytes(ptr, 0xDD, (*e).size);
            (*e).flags |= F_QUAR;
            TABLE.push_q(ptr as usize);
            return;
        }
        let (base, total, align, scattered) = ((*e).base, (*e).total, (*e).align, (*e).flags & F_SCAT != 0);
        TABLE.remove(e);
        if scattered {
            System.dealloc(base as *mut u8, Layout::from_size_align_unchecked(total, 16));
        } else {
            System.dealloc(base as *mut u8, Layout::from_size_align_unchecked(total, align));
        }
    }
}

/// Is the block with this user address + serial still a live (not freed, not quarantined) block?
pub fn block_is_live(addr: usize, serial: u64) -> bool {
    if !ENABLED {
        return true;
    }
    let _g = Guard::new();
    unsafe {
        match TABLE.find(addr) {
            Some(e) => (*e).serial == serial && (*e).flags & F_QUAR == 0,
            None => false,
        }
    }
}

/// Find the live block that contains `p` among the most recent library allocation.
pub fn block_of_last_lib_alloc_containing(p: usize) -> Option<(usize, u64)> {
    let (a, s, ser) = last_lib_alloc();
    if a != 0 && p >= a && p < a + s.max(1) {
        Some((a, ser))
    } else {
        None
    }
}

/// Verify that quarantined blocks were not written to since they were freed; returns the number
/// of damaged blocks found (also accumulated in WRITE_AFTER_FREE).
pub fn verify_quarantine() -> usize {
    if !ENABLED {
        return 0;
    }
    let _g = Guard::new();
    let mut bad = 0;
    unsafe {
        for i in 0..TABLE.qlen {
            let addr = *TABLE.quarantine.add(i);
            if let Some(e) = TABLE.find(addr) {
                let sz = (*e).size;
                let p = addr as *const u8;
                let mut ok = true;
                for j in 0..sz {
                    if *p.add(j) != 0xDD {
                        ok = false;
                        break;
                    }
                }
                if !ok {
                    bad += 1;
                    FAULT_ADDR.store(addr, Relaxed);
                    // re-poison so the same damage is not reported twice
                    std::ptr::write_bytes(addr as *mut u8, 0xDD, sz);
                }
            }
        }
    }
    if bad > 0 {
        WRITE_AFTER_FREE.fetch_add(bad, Relaxed);
    }
    bad
}

/// End of history: verify and release quarantined blocks and dummy blocks.
pub fn end_history() -> usize {
    if !ENABLED {
        return 0;
    }
    let bad = verify_quarantine();
    let _g = Guard::new();
    unsafe {
        for i in 0..TABLE.qlen {
            let addr = *TABLE.quarantine.add(i);
            if let Some(e) = TABLE.find(addr) {
                let (base, total, align, scattered) = ((*e).base, (*e).total, (*e).align, (*e).flags & F_SCAT != 0);
                TABLE.remove(e);
                let al = if scattered { 16 } else { align };
                System.dealloc(base as *mut u8, Layout::from_size_align_unchecked(total, al));
            }
        }
        TABLE.qlen = 0;
        for i in 0..TABLE.dlen {
            let (p, sz) = *TABLE.dummies.add(i);
            System.dealloc(p as *mut u8, Layout::from_size_align_unchecked(sz, 16));
        }
        TABLE.dlen = 0;
    }
    bad
}

/// Forget about every library block that is still live (used after a history was abandoned and
/// its objects deliberately leaked, so that the next history starts from zero).
pub fn reset_lib_accounting() {
    LIB_LIVE_BLOCKS.store(0, Relaxed);
    LIB_LIVE_BYTES.store(0, Relaxed);
    INVALID_FREES.store(0, Relaxed);
    LAYOUT_MISMATCH.store(0, Relaxed);
    WRITE_AFTER_FREE.store(0, Relaxed);
    if !ENABLED {
        return;
    }
    let _g = Guard::new();
    unsafe {
        for i in 0..TABLE.cap {
            let e = TABLE.ents.add(i);
            if (*e).flags & F_USED != 0 && (*e).flags & F_LIB != 0 {
                // demote to harness origin: it is leaked garbage now
                (*e).flags &= !F_LIB;
            }
        }
    }
}

/// Serial of the live block whose user address is exactly `addr`.
pub fn block_serial(addr: usize) -> Option<u64> {
    if !ENABLED {
        return None;
    }
    let _g = Guard::new();
    unsafe {
        match TABLE.find(addr) {
            Some(e) if (*e).flags & F_QUAR == 0 => Some((*e).serial),
            _ => None,
        }
    }
}
