//! C07: differential execution of adoption-free programs on cactusref::{Rc,Weak} and
//! std::rc::{Rc,Weak}. The same interpreter source is instantiated twice by macro; each run
//! produces a transcript (results of every call + interleaved destructor log with in-destructor
//! probes). Pointer values are compared only through the equality relations they induce.

use crate::rng::Rng;
use std::cell::RefCell;

#[derive(Clone, Debug)]
pub enum DOp {
    New(u32),
    Pin(u32),
    FromT(u32),
    FromBox(u32),
    Default,
    Uninit(u32),
    Clone(usize),
    Drop(usize),
    Downgrade(usize),
    Upgrade(usize),
    WeakNew,
    WeakDefault,
    WeakClone(usize),
    WeakDrop(usize),
    Counts(usize),
    WeakCounts(usize),
    TryUnwrap(usize, bool),
    GetMut(usize),
    MakeMut(usize),
    RawRound(usize),
    WeakRawRound(usize),
    WeakAsPtr(usize, usize),
    IncStrong(usize),
    DecStrong(usize),
    PtrEq(usize, usize),
    WeakPtrEq(usize, usize),
    Cmp(usize, usize),
    Fmt(usize),
    Borrow(usize),
    PushKid(usize, usize),
    PushKidClone(usize, usize),
    PushWeakKid(usize, usize),
    TakeKid(usize),
    ClearKids(usize),
    /// comparisons through two handles to one allocation of a PartialEq-only payload (NaN or not)
    PartialCmp(bool, u32),
}

pub const NV: usize = 8;

pub fn gen_program(seed: u64, len: usize) -> Vec<DOp> {
    let mut r = Rng::new(seed);
    let mut p = Vec::with_capacity(len);
    let mut tag = 1u32;
    for _ in 0..len {
        let v = r.below(NV);
        let u = r.below(NV);
        let op = match r.below(61) {
            0..=5 => {
                tag += 1;
                DOp::New(tag)
            }
            6 => {
                tag += 1;
                DOp::Pin(tag)
            }
            7 => {
                tag += 1;
                DOp::FromT(tag)
            }
            8 => {
                tag += 1;
                DOp::FromBox(tag)
            }
            9 => DOp::Default,
            10 => {
                tag += 1;
                DOp::Uninit(tag)
            }
            11..=15 => DOp::Clone(v),
            16..=21 => DOp::Drop(v),
            22..=25 => DOp::Downgrade(v),
            26..=29 => DOp::Upgrade(v),
            30 => DOp::WeakNew,
            31 => DOp::WeakDefault,
            32..=33 => DOp::WeakClone(v),
            34..=36 => DOp::WeakDrop(v),
            37..=38 => DOp::Counts(v),
            39..=40 => DOp::WeakCounts(v),
            41..=42 => DOp::TryUnwrap(v, r.chance(1, 2)),
            43 => DOp::GetMut(v),
            44..=45 => DOp::MakeMut(v),
            46 => DOp::RawRound(v),
            47 => DOp::WeakRawRound(v),
            48 => DOp::WeakAsPtr(v, u),
            49 => DOp::IncStrong(v),
            50 => DOp::DecStrong(v),
            51 => DOp::PtrEq(v, u),
            52 => DOp::WeakPtrEq(v, u),
            53 => DOp::Cmp(v, u),
            54 => DOp::Fmt(v),
            55 => DOp::Borrow(v),
            56 => {
                if r.chance(1, 2) {
                    DOp::PushKid(v, u)
                } else {
                    DOp::PushKidClone(v, u)
                }
            }
            57 => DOp::PushWeakKid(v, u),
            58 => DOp::TakeKid(v),
            59 => DOp::PartialCmp(r.chance(1, 2), tag),
            _ => DOp::ClearKids(v),
        };
        p.push(op);
    }
    p
}

pub struct CloneBomb;

thread_local! {
    pub static TRANSCRIPT: RefCell<Vec<String>> = RefCell::new(Vec::new());
}

pub fn tlog(s: String) {
    TRANSCRIPT.with(|t| t.borrow_mut().push(s));
}

macro_rules! interp {
    ($modname:ident, $align:literal, $($rcpath:tt)+) => {
        pub mod $modname {
            use $($rcpath)+::{Rc, Weak};
            use super::{tlog, DOp, NV};
            use std::borrow::Borrow;
            use std::cell::{Cell, RefCell};
            use std::collections::hash_map::DefaultHasher;
            use std::hash::{Hash, Hasher};
            use std::mem::MaybeUninit;

            #[repr(align($align))]
            pub struct V {
                tag: Cell<u32>,
                kids: RefCell<Vec<Rc<V>>>,
                wkids: RefCell<Vec<Weak<V>>>,
            }
            impl V {
                fn new(tag: u32) -> V {
                    V { tag: Cell::new(tag), kids: RefCell::new(vec![]), wkids: RefCell::new(vec![]) }
                }
            }
            impl Default for V {
                fn default() -> V {
                    V::new(7)
                }
            }
            impl Drop for V {
                fn drop(&mut self) {
                    let mut s = format!("  ~drop({}) kids={} probes[", self.tag.get(), self.kids.borrow().len());
                    for w in self.wkids.borrow().iter() {
                        let up = w.upgrade();
                        s.push_str(&format!("({},{},{})", up.as_ref().map(|r| r.tag.get() as i64).unwrap_or(-1), w.strong_count(), w.weak_count()));
                        drop(up);
                    }
                    s.push(']');
                    tlog(s);
                }
            }
            thread_local! {
                /// the program's other handles to the value that is being copied by make_mut: a
                /// `Clone` impl with tag % 7 == 3 drops them all while it runs (a cache eviction)
                static EVICT: RefCell<Vec<(usize, Rc<V>)>> = RefCell::new(Vec::new());
            }
            impl Clone for V {
                fn clone(&self) -> V {
                    tlog(format!("  ~clone({})", self.tag.get()));
                    if self.tag.get() % 7 == 3 {
                        let ev = EVICT.with(|e| std::mem::take(&mut *e.borrow_mut()));
                        tlog(format!("  ~evict({}) handles={} strong before={}", self.tag.get(), ev.len(), ev.first().map(|x| Rc::strong_count(&x.1)).unwrap_or(0)));
                        drop(ev);
                    }
                    if self.tag.get() % 5 == 0 {
                        // a Clone impl that fails: nothing must be constructed or destroyed for it
                        std::panic::panic_any(super::CloneBomb);
                    }
                    V {
                        tag: Cell::new(self.tag.get() + 100_000),
                        kids: RefCell::new(self.kids.borrow().iter().map(Rc::clone).collect()),
                        wkids: RefCell::new(self.wkids.borrow().iter().map(Weak::clone).collect()),
                    }
                }
            }
            impl PartialEq for V {
                fn eq(&self, o: &V) -> bool {
                    self.tag.get() % 5 == o.tag.get() % 5
                }
            }
            impl Eq for V {}
            impl PartialOrd for V {
                fn partial_cmp(&self, o: &V) -> Option<std::cmp::Ordering> {
                    Some(self.cmp(o))
                }
            }
            impl Ord for V {
                fn cmp(&self, o: &V) -> std::cmp::Ordering {
                    (self.tag.get() % 5).cmp(&(o.tag.get() % 5))
                }
            }
            impl Hash for V {
                fn hash<H: Hasher>(&self, h: &mut H) {
                    (self.tag.get() % 5).hash(h)
                }
            }
            // both impls honour the caller's format options (width, fill, alignment, precision, `#`),
            // so that a handle which does not pass its formatter on shows up in the transcript
            impl std::fmt::Debug for V {
                fn fmt(&self, f: &mut std::fmt::Formatter<'_>) -> std::fmt::Result {
                    f.debug_struct("V").field("tag", &self.tag.get()).field("kids", &self.kids.borrow().len()).finish()
                }
            }
            impl std::fmt::Display for V {
                fn fmt(&self, f: &mut std::fmt::Formatter<'_>) -> std::fmt::Result {
                    f.pad(&format!("v{}", self.tag.get()))
                }
            }

            fn put(vars: &mut Vec<Option<Rc<V>>>, r: Rc<V>, hint: usize) -> usize {
                // first free slot starting from hint, else replace hint (dropping the old handle)
                for i in 0..NV {
                    let k = (hint + i) % NV;
                    if vars[k].is_none() {
                        vars[k] = Some(r);
                        return k;
                    }
                }
                let old = vars[hint].replace(r);
                tlog(format!("  (slot {} overwritten)", hint));
                drop(old);
                hint
            }
            fn putw(wv: &mut Vec<Option<Weak<V>>>, r: Weak<V>, hint: usize) -> usize {
                for i in 0..NV {
                    let k = (hint + i) % NV;
                    if wv[k].is_none() {
                        wv[k] = Some(r);
                        return k;
                    }
                }
                let old = wv[hint].replace(r);
                drop(old);
                hint
            }

            pub fn run(prog: &[DOp]) {
                let mut vars: Vec<Option<Rc<V>>> = (0..NV).map(|_| None).collect();
                let mut wv: Vec<Option<Weak<V>>> = (0..NV).map(|_| None).collect();
                for (i, op) in prog.iter().enumerate() {
                    let line = match op {
                        DOp::New(t) => format!("new -> {}", put(&mut vars, Rc::new(V::new(*t)), i % NV)),
                        DOp::Pin(t) => {
                            let p = Rc::pin(V::new(*t));
                            let tag = p.tag.get();
                            let r = unsafe { std::pin::Pin::into_inner_unchecked(p) };
                            format!("pin({}) -> {}", tag, put(&mut vars, r, i % NV))
                        }
                        DOp::FromT(t) => format!("from -> {}", put(&mut vars, Rc::from(V::new(*t)), i % NV)),
                        DOp::FromBox(t) => format!("from_box -> {}", put(&mut vars, Rc::from(Box::new(V::new(*t))), i % NV)),
                        DOp::Default => {
                            let r: Rc<V> = Default::default();
                            format!("default({}) -> {}", r.tag.get(), put(&mut vars, r, i % NV))
                        }
                        DOp::Uninit(t) => {
                            let mut u: Rc<MaybeUninit<V>> = Rc::<V>::new_uninit();
                            Rc::get_mut(&mut u).expect("unique").write(V::new(*t));
                            let r = unsafe { u.assume_init() };
                            format!("uninit({}) -> {}", r.tag.get(), put(&mut vars, r, i % NV))
                        }
                        DOp::Clone(v) => match &vars[*v] {
                            Some(r) => {
                                let c = Rc::clone(r);
                                format!("clone {} -> {}", v, put(&mut vars, c, (*v + 1) % NV))
                            }
                            None => "skip".into(),
                        },
                        DOp::Drop(v) => match vars[*v].take() {
                            Some(r) => {
                                tlog(format!("drop {}", v));
                                drop(r);
                                "dropped".into()
                            }
                            None => "skip".into(),
                        },
                        DOp::Downgrade(v) => match &vars[*v] {
                            Some(r) => {
                                let w = Rc::downgrade(r);
                                format!("downgrade {} -> w{}", v, putw(&mut wv, w, *v))
                            }
                            None => "skip".into(),
                        },
                        DOp::Upgrade(w) => match &wv[*w] {
                            Some(x) => match x.upgrade() {
                                Some(r) => {
                                    let t = r.tag.get();
                                    format!("upgrade w{} -> Some({}) in {}", w, t, put(&mut vars, r, *w))
                                }
                                None => format!("upgrade w{} -> None", w),
                            },
                            None => "skip".into(),
                        },
                        DOp::WeakNew => format!("weak_new -> w{}", putw(&mut wv, Weak::new(), i % NV)),
                        DOp::WeakDefault => format!("weak_default -> w{}", putw(&mut wv, Default::default(), i % NV)),
                        DOp::WeakClone(w) => match &wv[*w] {
                            Some(x) => {
                                let c = Weak::clone(x);
                                format!("wclone w{} -> w{}", w, putw(&mut wv, c, (*w + 1) % NV))
                            }
                            None => "skip".into(),
                        },
                        DOp::WeakDrop(w) => match wv[*w].take() {
                            Some(x) => {
                                drop(x);
                                format!("wdrop w{}", w)
                            }
                            None => "skip".into(),
                        },
                        DOp::Counts(v) => match &vars[*v] {
                            Some(r) => format!("counts {} -> strong {} weak {} tag {}", v, Rc::strong_count(r), Rc::weak_count(r), r.tag.get()),
                            None => "skip".into(),
                        },
                        DOp::WeakCounts(w) => match &wv[*w] {
                            Some(x) => format!("wcounts w{} -> strong {} weak {} dbg {:?}", w, x.strong_count(), x.weak_count(), x),
                            None => "skip".into(),
                        },
                        DOp::TryUnwrap(v, rewrap) => match vars[*v].take() {
                            Some(r) => match Rc::try_unwrap(r) {
                                Ok(val) => {
                                    let t = val.tag.get();
                                    if *rewrap {
                                        val.tag.set(t + 10_000);
                                        let k = put(&mut vars, Rc::new(val), *v);
                                        format!("try_unwrap {} -> Ok({}) rewrapped in {}", v, t, k)
                                    } else {
                                        tlog(format!("try_unwrap {} -> Ok({}) value dropped", v, t));
                                        drop(val);
                                        "try_unwrap Ok( value dropped".into()
                                    }
                                }
                                Err(r) => {
                                    let t = r.tag.get();
                                    vars[*v] = Some(r);
                                    format!("try_unwrap {} -> Err({})", v, t)
                                }
                            },
                            None => "skip".into(),
                        },
                        DOp::GetMut(v) => match vars[*v].as_mut() {
                            Some(r) => match Rc::get_mut(r) {
                                Some(m) => {
                                    m.tag.set(m.tag.get() + 1000);
                                    format!("get_mut {} -> Some, tag now {}", v, m.tag.get())
                                }
                                None => format!("get_mut {} -> None", v),
                            },
                            None => "skip".into(),
                        },
                        DOp::MakeMut(v) => match vars[*v].take() {
                            Some(mut h) => {
                                if h.tag.get() % 7 == 3 {
                                    // the value's Clone will drop every other handle the program has to it
                                    let mut ev = vec![];
                                    for (i, slot) in vars.iter_mut().enumerate() {
                                        if slot.as_ref().map_or(false, |o| Rc::ptr_eq(o, &h)) {
                                            ev.push((i, slot.take().unwrap()));
                                        }
                                    }
                                    EVICT.with(|e| *e.borrow_mut() = ev);
                                }
                                let r = &mut h;
                                let res = std::panic::catch_unwind(std::panic::AssertUnwindSafe(|| {
                                    let m = Rc::make_mut(r);
                                    m.tag.set(m.tag.get() + 3);
                                    m.tag.get()
                                }));
                                let line = match res {
                                    Ok(t) => format!("make_mut {} -> tag {} strong {} weak {}", v, t, Rc::strong_count(r), Rc::weak_count(r)),
                                    Err(_) => format!("make_mut {} -> Clone panicked; handle now tag {} strong {} weak {}", v, r.tag.get(), Rc::strong_count(r), Rc::weak_count(r)),
                                };
                                // handles the Clone did not get to (it never ran, or it failed first) go back
                                for (i, o) in EVICT.with(|e| std::mem::take(&mut *e.borrow_mut())) {
                                    vars[i] = Some(o);
                                }
                                vars[*v] = Some(h);
                                line
                            }
                            None => "skip".into(),
                        },
                        DOp::RawRound(v) => match vars[*v].take() {
                            Some(r) => {
                                let ap = Rc::as_ptr(&r);
                                let raw = Rc::into_raw(r);
                                let same = ap == raw;
                                let tag = unsafe { (*raw).tag.get() };
                                let back = unsafe { Rc::from_raw(raw) };
                                let s = format!("raw_round {} -> same_ptr {} tag {} strong {}", v, same, tag, Rc::strong_count(&back));
                                vars[*v] = Some(back);
                                s
                            }
                            None => "skip".into(),
                        },
                        DOp::WeakRawRound(w) => match wv[*w].take() {
                            Some(x) => {
                                let ap = x.as_ptr();
                                let raw = x.into_raw();
                                let same = ap == raw;
                                let back = unsafe { Weak::from_raw(raw) };
                                let s = format!("wraw_round w{} -> same_ptr {} strong {} weak {}", w, same, back.strong_count(), back.weak_count());
                                wv[*w] = Some(back);
                                s
                            }
                            None => "skip".into(),
                        },
                        DOp::WeakAsPtr(w, v) => match (&wv[*w], &vars[*v]) {
                            (Some(x), Some(r)) => format!("w{}.as_ptr == as_ptr({}) -> {}", w, v, x.as_ptr() == Rc::as_ptr(r)),
                            _ => "skip".into(),
                        },
                        DOp::IncStrong(v) => match &vars[*v] {
                            Some(r) => {
                                let raw = Rc::as_ptr(r);
                                let extra = unsafe {
                                    Rc::increment_strong_count(raw);
                                    Rc::from_raw(raw)
                                };
                                let s = format!("inc_strong {} -> strong {}", v, Rc::strong_count(&extra));
                                let k = put(&mut vars, extra, (*v + 1) % NV);
                                format!("{} in {}", s, k)
                            }
                            None => "skip".into(),
                        },
                        DOp::DecStrong(v) => match vars[*v].take() {
                            Some(r) => {
                                let raw = Rc::into_raw(r);
                                tlog(format!("dec_strong {}", v));
                                unsafe { Rc::decrement_strong_count(raw) };
                                "dec_strong done".into()
                            }
                            None => "skip".into(),
                        },
                        DOp::PtrEq(a, b) => match (&vars[*a], &vars[*b]) {
                            (Some(x), Some(y)) => format!("ptr_eq {} {} -> {} as_ptr_eq {}", a, b, Rc::ptr_eq(x, y), Rc::as_ptr(x) == Rc::as_ptr(y)),
                            _ => "skip".into(),
                        },
                        DOp::WeakPtrEq(a, b) => match (&wv[*a], &wv[*b]) {
                            (Some(x), Some(y)) => format!("wptr_eq w{} w{} -> {}", a, b, x.ptr_eq(y)),
                            _ => "skip".into(),
                        },
                        DOp::Cmp(a, b) => match (&vars[*a], &vars[*b]) {
                            (Some(x), Some(y)) => {
                                let mut h1 = DefaultHasher::new();
                                x.hash(&mut h1);
                                let mut h2 = DefaultHasher::new();
                                y.hash(&mut h2);
                                format!(
                                    "cmp {} {} -> eq {} ne {} lt {} le {} gt {} ge {} cmp {:?} pcmp {:?} hash_eq {}",
                                    a, b, x == y, x != y, x < y, x <= y, x > y, x >= y, x.cmp(y), x.partial_cmp(y), h1.finish() == h2.finish()
                                )
                            }
                            _ => "skip".into(),
                        },
                        DOp::Fmt(v) => match &vars[*v] {
                            Some(r) => {
                                let p1 = format!("{:p}", *r);
                                let p2 = format!("{:p}", Rc::as_ptr(r));
                                let p3 = format!("{:24p}", *r);
                                let p4 = format!("{:24p}", Rc::as_ptr(r));
                                format!(
                                    "fmt {} -> {:?} {} [{:>12}] [{:*<9.3}] [{:^+7}] {:#?} pointer_fmt_matches {} {}",
                                    v,
                                    r,
                                    r,
                                    r,
                                    r,
                                    r,
                                    r,
                                    p1 == p2,
                                    p3 == p4
                                )
                            }
                            None => "skip".into(),
                        },
                        DOp::Borrow(v) => match &vars[*v] {
                            Some(r) => {
                                let b: &V = r.borrow();
                                let a: &V = r.as_ref();
                                let d: &V = &**r;
                                format!("borrow {} -> {} {} {} same {}", v, b.tag.get(), a.tag.get(), d.tag.get(), std::ptr::eq(b, a) && std::ptr::eq(a, d))
                            }
                            None => "skip".into(),
                        },
                        DOp::PushKid(p, c) => {
                            if *p != *c && vars[*p].is_some() && vars[*c].is_some() {
                                let child = vars[*c].take().unwrap();
                                vars[*p].as_ref().unwrap().kids.borrow_mut().push(child);
                                format!("push_kid {} <- {} (moved)", p, c)
                            } else {
                                "skip".into()
                            }
                        }
                        DOp::PushKidClone(p, c) => match (&vars[*p], &vars[*c]) {
                            (Some(pp), Some(cc)) => {
                                // may create a (leaking) cycle, including a self cycle
                                pp.kids.borrow_mut().push(Rc::clone(cc));
                                format!("push_kid {} <- clone of {}", p, c)
                            }
                            _ => "skip".into(),
                        },
                        DOp::PushWeakKid(p, w) => {
                            if vars[*p].is_some() && wv[*w].is_some() {
                                let wk = wv[*w].take().unwrap();
                                vars[*p].as_ref().unwrap().wkids.borrow_mut().push(wk);
                                format!("push_wkid {} <- w{}", p, w)
                            } else {
                                "skip".into()
                            }
                        }
                        DOp::TakeKid(p) => {
                            let k = match &vars[*p] {
                                Some(pp) => pp.kids.borrow_mut().pop(),
                                None => None,
                            };
                            match k {
                                Some(k) => {
                                    let t = k.tag.get();
                                    format!("take_kid {} -> {} in {}", p, t, put(&mut vars, k, (*p + 1) % NV))
                                }
                                None => "skip".into(),
                            }
                        }
                        DOp::PartialCmp(nan, t) => {
                            let val = if *nan { f64::NAN } else { *t as f64 };
                            let x: Rc<f64> = Rc::new(val);
                            let y = Rc::clone(&x);
                            let z: Rc<f64> = Rc::new(val);
                            let wx = Rc::downgrade(&x);
                            let u = wx.upgrade().expect("alive");
                            format!(
                                "partial_cmp nan={} same-alloc eq {} ne {} lt {} le {} pcmp {:?} self-eq {} upgraded-eq {} other-alloc eq {} ne {} pcmp {:?}",
                                nan, x == y, x != y, x < y, x <= y, x.partial_cmp(&y), x == x, x == u, x == z, x != z, x.partial_cmp(&z)
                            )
                        }
                        DOp::ClearKids(p) => match &vars[*p] {
                            Some(pp) => {
                                let ks: Vec<Rc<V>> = pp.kids.borrow_mut().drain(..).collect();
                                let ws: Vec<Weak<V>> = pp.wkids.borrow_mut().drain(..).collect();
                                tlog(format!("clear_kids {} ({} strong, {} weak)", p, ks.len(), ws.len()));
                                drop(ks);
                                drop(ws);
                                "clear_kids done".into()
                            }
                            None => "skip".into(),
                        },
                    };
                    tlog(format!("{}: {}", i, line));
                }
                // end of program: weak observations, then drop everything in a fixed order
                for (k, w) in wv.iter().enumerate() {
                    if let Some(w) = w {
                        tlog(format!("end w{}: strong {} weak {} up {}", k, w.strong_count(), w.weak_count(), w.upgrade().is_some()));
                    }
                }
                for k in 0..NV {
                    if let Some(r) = vars[k].take() {
                        tlog(format!("end drop {}", k));
                        drop(r);
                    }
                }
                for k in 0..NV {
                    if let Some(w) = wv[k].take() {
                        tlog(format!("end wdrop w{}: strong {} weak {}", k, w.strong_count(), w.weak_count()));
                        drop(w);
                    }
                }
            }
        }
    };
}

interp!(on_cactus, 8, cactusref);
interp!(on_std, 8, std::rc);
// the same programs on an over-aligned payload (padding between header and value)
interp!(on_cactus_a64, 64, cactusref);
interp!(on_std_a64, 64, std::rc);

pub struct DiffResult {
    pub ops: usize,
    pub lines: usize,
    pub drops: usize,
    pub mismatch: Option<(usize, String, String)>,
    pub transcript_tail: Vec<String>,
    pub coverage: Vec<(String, u64)>,
}

pub fn run_diff(prog: &[DOp], over_aligned: bool) -> DiffResult {
    TRANSCRIPT.with(|t| t.borrow_mut().clear());
    if over_aligned {
        on_cactus_a64::run(prog);
    } else {
        on_cactus::run(prog);
    }
    let a = TRANSCRIPT.with(|t| std::mem::take(&mut *t.borrow_mut()));
    if over_aligned {
        on_std_a64::run(prog);
    } else {
        on_std::run(prog);
    }
    let b = TRANSCRIPT.with(|t| std::mem::take(&mut *t.borrow_mut()));
    let drops = b.iter().filter(|l| l.contains("~drop(")).count();
    let mut mismatch = None;
    let n = a.len().max(b.len());
    for i in 0..n {
        let x = a.get(i).cloned().unwrap_or_else(|| "<end of transcript>".into());
        let y = b.get(i).cloned().unwrap_or_else(|| "<end of transcript>".into());
        if x != y {
            mismatch = Some((i, x, y));
            break;
        }
    }
    let tail = if let Some((i, _, _)) = &mismatch {
        let lo = i.saturating_sub(12);
        b[lo..(*i).min(b.len())].to_vec()
    } else {
        vec![]
    };
    let mut cov: std::collections::BTreeMap<String, u64> = Default::default();
    for l in &b {
        let body = match l.split_once(": ") {
            Some((n, rest)) if n.chars().all(|c| c.is_ascii_digit()) => rest,
            _ => continue,
        };
        let name = body.split_whitespace().next().unwrap_or("?");
        if name == "skip" {
            continue;
        }
        let mut key = name.split('(').next().unwrap_or(name).to_string();
        if key.starts_with('w') && key.ends_with(".as_ptr") {
            key = "weak_as_ptr".into();
        }
        for tag in ["Clone panicked", "Some", "None", "Ok(", "Err(", "same_ptr true", "-> true", "-> false", "rewrapped"] {
            if body.contains(tag) {
                key.push(' ');
                key.push_str(tag.trim_end_matches('('));
                break;
            }
        }
        *cov.entry(key).or_insert(0) += 1;
    }
    DiffResult { ops: prog.len(), lines: b.len(), drops, mismatch, transcript_tail: tail, coverage: cov.into_iter().collect() }
}
