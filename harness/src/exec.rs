//! Executes operations against the real cactusref crate and feeds the monitor.

use std::io::Write;
use std::panic::{catch_unwind, AssertUnwindSafe};

use cactusref::{Adopt, Rc, Weak};

use crate::alloc;
use crate::node::{Node, CANARY_ALIVE};
use crate::ops::{HRef, ObjId, Op, WRef, When};
use crate::rng::mix;
use crate::world::{self, Class, Ev, St, World};

pub struct ScriptedPanic;

type R = Result<(), String>;

fn inv<T>(s: impl Into<String>) -> Result<T, String> {
    Err(s.into())
}

/// Guard: closes the drop context of a top-level (or script) handle drop, also when unwinding.
struct DropGuard;
impl Drop for DropGuard {
    fn drop(&mut self) {
        let unwinding = std::thread::panicking();
        world::with(|w| w.drop_end(unwinding));
    }
}

struct LibGuard(bool);
impl LibGuard {
    fn enter() -> LibGuard {
        LibGuard(alloc::enter_lib())
    }
}
impl Drop for LibGuard {
    fn drop(&mut self) {
        alloc::restore(self.0);
    }
}

fn in_flight(w: &World) -> bool {
    !w.dying_stack.is_empty()
}

/// Execute one operation. `Err` means the operation does not apply to the current state (the
/// monitor is not affected in that case).
pub fn exec(op: &Op) -> R {
    let op = &world::with(|w| op.normalize(w.handles.len(), w.weaks.len()));
    match op {
        Op::Nop => Ok(()),
        Op::New | Op::NewVia(_) => {
            let via = if let Op::NewVia(k) = op { *k } else { 0 };
            let id = world::with(|w| w.next_id());
            let node = Node::new(id);
            let boxed = if via == 2 { Some(Box::new(Node::new(id))) } else { None };
            let rc = {
                let _l = LibGuard::enter();
                match via {
                    1 => Rc::from(node),
                    2 => {
                        std::mem::forget(node);
                        Rc::from(boxed.unwrap())
                    }
                    3 => {
                        let mut u = Rc::<Node>::new_uninit();
                        Rc::get_mut(&mut u).expect("fresh allocation is unique").write(node);
                        unsafe { u.assume_init() }
                    }
                    4 => unsafe { std::pin::Pin::into_inner_unchecked(Rc::pin(node)) },
                    _ => Rc::new(node),
                }
            };
            let addr = Rc::as_ptr(&rc) as usize;
            world::with(|w| {
                let block = block_for(w, addr);
                let id2 = w.new_obj(addr, block);
                debug_assert_eq!(id, id2);
                w.push_handle(rc, id2);
            });
            Ok(())
        }
        Op::Clone(h) => world::with(|w| {
            let t = w.href_target(*h).ok_or("clone: no such handle")?;
            if w.objs[t as usize].state != St::Alive {
                return inv("clone: target not alive");
            }
            let p = w.href_ptr(*h).ok_or("clone: handle not reachable")?;
            let snap = if w.no_records(t) { Some(w.cost_snap()) } else { None };
            let rc = {
                let _l = LibGuard::enter();
                unsafe { Rc::clone(&*p) }
            };
            if let Some(s) = snap {
                w.check_cost(s, t, "clone");
            }
            w.push_handle(rc, t);
            Ok(())
        }),
        Op::Drop(slot) => {
            let rc = world::with(|w| -> Result<Rc<Node>, String> {
                let rc = w.handles.get_mut(*slot).and_then(|h| h.take()).ok_or("drop: empty slot")?;
                let t = w.htarget[*slot];
                w.objs[t as usize].ext -= 1;
                w.drop_begin(t);
                Ok(rc)
            })?;
            let _g = DropGuard;
            let _l = LibGuard::enter();
            drop(rc);
            Ok(())
        }
        Op::Store(o, slot) => world::with(|w| {
            let np = w.node_ptr(*o).ok_or("store: owner not accessible")?;
            if w.handles.get(*slot).map_or(true, |h| h.is_none()) {
                return inv("store: empty slot");
            }
            let node = unsafe { &*np };
            let mut v = node.out.try_borrow_mut().map_err(|_| "store: owner busy")?;
            let rc = w.handles[*slot].take().unwrap();
            let t = w.htarget[*slot];
            w.objs[t as usize].ext -= 1;
            v.push(rc);
            w.objs[*o as usize].held.push(t);
            Ok(())
        }),
        Op::Take(o, k) => world::with(|w| {
            let np = w.node_ptr(*o).ok_or("take: owner not accessible")?;
            let node = unsafe { &*np };
            let mut v = node.out.try_borrow_mut().map_err(|_| "take: owner busy")?;
            if *k >= v.len() || *k >= w.objs[*o as usize].held.len() {
                return inv("take: index out of range");
            }
            let rc = v.remove(*k);
            drop(v);
            let t = w.objs[*o as usize].held.remove(*k);
            if w.cfg.allow_stale && w.rec_of(*o, t) > w.objs[*o as usize].held.iter().filter(|&&x| x == t).count() as u32 {
                w.stats.elide_takes += 1;
            }
            w.push_handle(rc, t);
            Ok(())
        }),
        Op::Adopt(a, b) => world::with(|w| {
            let ta = w.href_target(*a).ok_or("adopt: no this")?;
            let tb = w.href_target(*b).ok_or("adopt: no other")?;
            if w.objs[ta as usize].state != St::Alive || w.objs[tb as usize].state != St::Alive {
                return inv("adopt: target not alive");
            }
            let pa = w.href_ptr(*a).ok_or("adopt: this unreachable")?;
            let pb = w.href_ptr(*b).ok_or("adopt: other unreachable")?;
            {
                let _l = LibGuard::enter();
                unsafe { Rc::adopt_unchecked(&*pa, &*pb) };
            }
            if pa == pb {
                w.objs[ta as usize].looprec += 1;
            } else {
                *w.objs[ta as usize].rec.entry(tb).or_insert(0) += 1;
            }
            w.objs[ta as usize].table_used = true;
            w.objs[tb as usize].table_used = true;
            Ok(())
        }),
        Op::Unadopt(a, b) => world::with(|w| {
            let ta = w.href_target(*a).ok_or("unadopt: no this")?;
            let tb = w.href_target(*b).ok_or("unadopt: no other")?;
            if w.objs[ta as usize].state != St::Alive || w.objs[tb as usize].state != St::Alive {
                return inv("unadopt: target not alive");
            }
            let pa = w.href_ptr(*a).ok_or("unadopt: this unreachable")?;
            let pb = w.href_ptr(*b).ok_or("unadopt: other unreachable")?;
            {
                let _l = LibGuard::enter();
                unsafe { Rc::unadopt(&*pa, &*pb) };
            }
            if pa == pb {
                let l = &mut w.objs[ta as usize].looprec;
                *l = l.saturating_sub(1);
            } else {
                let o = &mut w.objs[ta as usize];
                let c = o.rec.get(&tb).copied().unwrap_or(0);
                if c <= 1 {
                    o.rec.remove(&tb);
                } else {
                    o.rec.insert(tb, c - 1);
                }
            }
            Ok(())
        }),
        Op::Downgrade(h) => world::with(|w| {
            let t = w.href_target(*h).ok_or("downgrade: no handle")?;
            if w.objs[t as usize].state != St::Alive {
                return inv("downgrade: target not alive");
            }
            let p = w.href_ptr(*h).ok_or("downgrade: unreachable")?;
            let wk = {
                let _l = LibGuard::enter();
                unsafe { Rc::downgrade(&*p) }
            };
            w.push_weak(wk, Some(t));
            Ok(())
        }),
        Op::Upgrade(wr) => {
            let up = world::with(|w| -> Result<Option<(Rc<Node>, ObjId)>, String> {
                let t = w.wref_target(*wr).ok_or("upgrade: no weak")?;
                let p = w.wref_ptr(*wr).ok_or("upgrade: unreachable")?;
                let r = {
                    let _l = LibGuard::enter();
                    unsafe { (*p).upgrade() }
                };
                Ok(check_upgrade(w, t, r, "upgrade"))
            })?;
            if let Some((rc, t)) = up {
                world::with(|w| {
                    w.push_handle(rc, t);
                });
            }
            Ok(())
        }
        Op::CloneWeak(wr) => world::with(|w| {
            let t = w.wref_target(*wr).ok_or("wclone: no weak")?;
            let p = w.wref_ptr(*wr).ok_or("wclone: unreachable")?;
            let c = {
                let _l = LibGuard::enter();
                unsafe { Weak::clone(&*p) }
            };
            w.push_weak(c, t);
            Ok(())
        }),
        Op::DropWeak(slot) => {
            let wk = world::with(|w| -> Result<Weak<Node>, String> {
                let wk = w.weaks.get_mut(*slot).and_then(|h| h.take()).ok_or("wdrop: empty slot")?;
                if let Some(t) = w.wtarget[*slot] {
                    w.objs[t as usize].wext -= 1;
                }
                Ok(wk)
            })?;
            let _l = LibGuard::enter();
            drop(wk);
            Ok(())
        }
        Op::StoreWeak(o, slot) => world::with(|w| {
            let np = w.node_ptr(*o).ok_or("wstore: owner not accessible")?;
            if w.weaks.get(*slot).map_or(true, |h| h.is_none()) {
                return inv("wstore: empty slot");
            }
            let node = unsafe { &*np };
            let mut v = node.weaks.try_borrow_mut().map_err(|_| "wstore: owner busy")?;
            let wk = w.weaks[*slot].take().unwrap();
            let t = w.wtarget[*slot];
            if let Some(t) = t {
                w.objs[t as usize].wext -= 1;
            }
            v.push(wk);
            w.objs[*o as usize].wheld.push(t);
            Ok(())
        }),
        Op::TakeWeak(o, k) => world::with(|w| {
            let np = w.node_ptr(*o).ok_or("wtake: owner not accessible")?;
            let node = unsafe { &*np };
            let mut v = node.weaks.try_borrow_mut().map_err(|_| "wtake: owner busy")?;
            if *k >= v.len() || *k >= w.objs[*o as usize].wheld.len() {
                return inv("wtake: index out of range");
            }
            let wk = v.remove(*k);
            drop(v);
            let t = w.objs[*o as usize].wheld.remove(*k);
            w.push_weak(wk, t);
            Ok(())
        }),
        Op::WeakRawRound(slot) => world::with(|w| {
            let wk = w.weaks.get_mut(*slot).and_then(|h| h.take()).ok_or("wrawround: empty slot")?;
            let t = w.wtarget[*slot];
            let (same, back) = {
                let _l = LibGuard::enter();
                let ap = wk.as_ptr();
                let raw = wk.into_raw();
                (ap == raw, unsafe { Weak::from_raw(raw) })
            };
            if !same {
                w.viol("count", false, format!("Weak::into_raw differs from Weak::as_ptr for a Weak to {:?}", t));
            }
            if let Some(t) = t {
                if w.objs[t as usize].state == St::Alive && back.as_ptr() as usize != w.objs[t as usize].addr {
                    w.viol("count", false, format!("Weak::as_ptr of a Weak to live #{} is {:#x}, the value lives at {:#x}", t, back.as_ptr() as usize, w.objs[t as usize].addr));
                }
            }
            w.weaks[*slot] = Some(back);
            Ok(())
        }),
        Op::WeakNew => world::with(|w| {
            let wk = {
                let _l = LibGuard::enter();
                Weak::new()
            };
            w.push_weak(wk, None);
            Ok(())
        }),
        Op::TryUnwrap(slot) => exec_try_unwrap(*slot),
        Op::MakeMut(slot) => exec_make_mut(*slot),
        Op::MakeMutIn(o, k) => {
            // same as make_mut on `&mut value.out[k]`: the handle is moved out, made unique and put
            // back at the same position (no observation point in between)
            exec(&Op::Take(*o, *k))?;
            let slot = world::with(|w| w.handles.len() - 1);
            let r = exec_make_mut(slot);
            world::with(|w| {
                let np = match w.node_ptr(*o) {
                    Some(p) => p,
                    None => return, // the owner died in the cascade: the program keeps the handle
                };
                let node = unsafe { &*np };
                let mut v = match node.out.try_borrow_mut() {
                    Ok(v) => v,
                    Err(_) => return,
                };
                if let Some(rc) = w.handles[slot].take() {
                    let t = w.htarget[slot];
                    let pos = (*k).min(v.len());
                    v.insert(pos, rc);
                    w.objs[*o as usize].held.insert(pos, t);
                    w.objs[t as usize].ext -= 1;
                }
            });
            r
        }
        Op::GetMut(slot) => world::with(|w| {
            if w.handles.get(*slot).map_or(true, |h| h.is_none()) {
                return inv("getmut: empty slot");
            }
            let t = w.htarget[*slot];
            if w.objs[t as usize].state != St::Alive {
                return inv("getmut: target not alive");
            }
            let expect = w.strong(t) == 1 && w.weak(t) == 0;
            let mut rc = w.handles[*slot].take().unwrap();
            let got = {
                let _l = LibGuard::enter();
                match Rc::get_mut(&mut rc) {
                    Some(n) => Some((n.id, n.canary.get())),
                    None => None,
                }
            };
            w.handles[*slot] = Some(rc);
            match got {
                Some((id, can)) => {
                    if !expect {
                        w.viol("count", false, format!("get_mut on #{} returned Some although other handles exist (strong {}, weak {})", t, w.strong(t), w.weak(t)));
                    }
                    if id != t || can != CANARY_ALIVE {
                        w.viol("live", true, format!("get_mut on #{} yields a damaged value (id {}, canary {:x})", t, id, can));
                    }
                    w.stats.consume_ok += 1;
                }
                None => {
                    if expect {
                        w.viol("count", false, format!("get_mut on #{} returned None although the handle is unique", t));
                    }
                    w.stats.consume_noop += 1;
                }
            }
            Ok(())
        }),
        Op::RawRound(slot) => world::with(|w| {
            if w.handles.get(*slot).map_or(true, |h| h.is_none()) {
                return inv("rawround: empty slot");
            }
            let t = w.htarget[*slot];
            if w.objs[t as usize].state != St::Alive {
                return inv("rawround: target not alive");
            }
            let rc = w.handles[*slot].take().unwrap();
            let (p, rc2) = {
                let _l = LibGuard::enter();
                let p = Rc::into_raw(rc);
                (p, unsafe { Rc::from_raw(p) })
            };
            if p as usize != w.objs[t as usize].addr {
                w.viol("count", false, format!("into_raw of a handle to #{} returned {:#x}, as_ptr at creation was {:#x}", t, p as usize, w.objs[t as usize].addr));
            }
            w.handles[*slot] = Some(rc2);
            w.stats.consume_ok += 1;
            Ok(())
        }),
        Op::IncStrong(h) => world::with(|w| {
            let t = w.href_target(*h).ok_or("incstrong: no handle")?;
            if w.objs[t as usize].state != St::Alive {
                return inv("incstrong: target not alive");
            }
            let p = w.href_ptr(*h).ok_or("incstrong: unreachable")?;
            let rc = {
                let _l = LibGuard::enter();
                unsafe {
                    let raw = Rc::as_ptr(&*p);
                    Rc::increment_strong_count(raw);
                    Rc::from_raw(raw)
                }
            };
            w.push_handle(rc, t);
            w.stats.consume_ok += 1;
            Ok(())
        }),
        Op::DecStrong(slot) => {
            let raw = world::with(|w| -> Result<*const Node, String> {
                let rc = w.handles.get_mut(*slot).and_then(|h| h.take()).ok_or("decstrong: empty slot")?;
                let t = w.htarget[*slot];
                let raw = Rc::into_raw(rc);
                w.objs[t as usize].ext -= 1;
                w.drop_begin(t);
                w.stats.consume_ok += 1;
                Ok(raw)
            })?;
            let _g = DropGuard;
            let _l = LibGuard::enter();
            unsafe { Rc::decrement_strong_count(raw) };
            Ok(())
        }
        Op::Script(o, when, inner) => world::with(|w| {
            let np = w.node_ptr(*o).ok_or("script: object not accessible")?;
            let node = unsafe { &*np };
            node.script.try_borrow_mut().map_err(|_| "script: busy")?.push((*when, (**inner).clone()));
            w.objs[*o as usize].script_len += 1;
            Ok(())
        }),
        Op::Panic => {
            let ok = world::with(|w| {
                if w.dying_stack.is_empty() || w.panicked {
                    return false;
                }
                let id = w.dying_stack.last().unwrap().0;
                w.panicked = true;
                w.panic_in_op = true;
                w.mem_disarmed = true;
                w.stats.panics_scripted += 1;
                w.ev(Ev::Panic(id));
                true
            });
            if ok {
                std::panic::panic_any(ScriptedPanic);
            }
            inv("panic: only valid once, inside a destructor")
        }
        Op::Shallow(o) => world::with(|w| {
            let np = w.node_ptr(*o).ok_or("shallow: object not accessible")?;
            unsafe { &*np }.shallow.set(true);
            Ok(())
        }),
        Op::CloneBomb(o) => world::with(|w| {
            let np = w.node_ptr(*o).ok_or("clonebomb: object not accessible")?;
            unsafe { &*np }.clone_bomb.set(true);
            Ok(())
        }),
        Op::CloneEvict(o) => world::with(|w| {
            let np = w.node_ptr(*o).ok_or("cloneevict: object not accessible")?;
            unsafe { &*np }.clone_evict.set(true);
            Ok(())
        }),
        Op::RawRelease(o) => world::with(|w| {
            let np = w.node_ptr(*o).ok_or("rawrelease: object not accessible")?;
            unsafe { &*np }.raw_release.set(true);
            Ok(())
        }),
        Op::EscapeOwn(k) => world::with(|w| {
            let &(me, np) = w.dying_stack.last().ok_or("escapeown: not in a destructor")?;
            let node = unsafe { &*np };
            let mut v = node.out.try_borrow_mut().map_err(|_| "escapeown: busy")?;
            if *k >= v.len() || *k >= w.objs[me as usize].held.len() {
                return inv("escapeown: no such stored handle");
            }
            let rc = v.remove(*k);
            drop(v);
            let t = w.objs[me as usize].held.remove(*k);
            w.stats.handle_escapes += 1;
            w.push_handle(rc, t);
            Ok(())
        }),
        Op::CloneLate(slot) => exec_clone_late(*slot),
        Op::CloneDead(k) => exec_clone_dead(*k, false),
        Op::CloneFromDead(k) => exec_clone_dead(*k, true),
        Op::DowngradeOwn(k) => world::with(|w| {
            let &(me, np) = w.dying_stack.last().ok_or("downgradeown: not in a destructor")?;
            let node = unsafe { &*np };
            let v = node.out.try_borrow().map_err(|_| "downgradeown: busy")?;
            let h = v.get(*k).ok_or("downgradeown: no such stored handle")?;
            let t = *w.objs[me as usize].held.get(*k).ok_or("downgradeown: ledger")?;
            let wk = {
                let _l = LibGuard::enter();
                Rc::downgrade(h)
            };
            drop(v);
            w.stats.weak_escapes += 1;
            if w.objs[t as usize].state != St::Alive {
                w.stats.weak_escapes_dead += 1;
            }
            w.push_weak(wk, Some(t));
            Ok(())
        }),
        Op::DropDead(k) => exec_drop_dead(*k),
    }
}

fn block_for(w: &World, addr: usize) -> Option<(usize, u64)> {
    if !alloc::ENABLED || w.value_offset == usize::MAX {
        return None;
    }
    let base = addr.wrapping_sub(w.value_offset);
    alloc::block_serial(base).map(|s| (base, s))
}

/// Check the result of an upgrade against the ledger. Returns the handle to keep (if any).
fn check_upgrade(w: &mut World, t: Option<ObjId>, r: Option<Rc<Node>>, what: &str) -> Option<(Rc<Node>, ObjId)> {
    match (t, r) {
        (None, None) => {
            w.stats.upgrades_none += 1;
            None
        }
        (None, Some(rc)) => {
            w.viol("weak", true, format!("{} of a dangling Weak::new() returned a handle", what));
            std::mem::forget(rc);
            None
        }
        (Some(t), r) => {
            let st = w.objs[t as usize].state;
            let lenient = st == St::Alive && in_flight(w) && (!w.reachable()[t as usize] || w.predicted_by_stale(t));
            match r {
                Some(rc) => {
                    w.stats.upgrades_some += 1;
                    if st != St::Alive {
                        w.viol("weak", true, format!("{} of a Weak to #{} ({:?}) returned a handle: destroyed object resurrected", what, t, st));
                        std::mem::forget(rc);
                        return None;
                    }
                    let ap = Rc::as_ptr(&rc) as usize;
                    if ap != w.objs[t as usize].addr {
                        w.viol("weak", true, format!("{} of a Weak to #{} returned a handle to another allocation ({:#x} vs {:#x})", what, t, ap, w.objs[t as usize].addr));
                        std::mem::forget(rc);
                        return None;
                    }
                    Some((rc, t))
                }
                None => {
                    w.stats.upgrades_none += 1;
                    if st == St::Alive && !lenient {
                        w.viol("weak", false, format!("{} of a Weak to live #{} returned None", what, t));
                    }
                    None
                }
            }
        }
    }
}

fn exec_try_unwrap(slot: usize) -> R {
    // phase 1: call
    let res = world::with(|w| -> Result<(Result<Node, Rc<Node>>, ObjId, bool), String> {
        if w.handles.get(slot).map_or(true, |h| h.is_none()) {
            return inv("tryunwrap: empty slot");
        }
        let t = w.htarget[slot];
        if w.objs[t as usize].state != St::Alive {
            return inv("tryunwrap: target not alive");
        }
        let expect_ok = w.strong(t) == 1;
        let rc = w.handles[slot].take().unwrap();
        let r = {
            let _l = LibGuard::enter();
            Rc::try_unwrap(rc)
        };
        Ok((r, t, expect_ok))
    })?;
    let (r, t, expect_ok) = res;
    match r {
        Err(rc) => {
            world::with(|w| {
                if expect_ok {
                    w.viol("count", false, format!("try_unwrap on the sole strong handle to #{} failed", t));
                }
                w.handles[slot] = Some(rc);
                w.stats.consume_noop += 1;
            });
            Ok(())
        }
        Ok(node) => {
            let proceed = world::with(|w| {
                if !expect_ok {
                    w.viol("count", true, format!("try_unwrap on #{} succeeded although {} strong handles exist", t, w.strong(t)));
                    return false;
                }
                if node.id != t || node.canary.get() != CANARY_ALIVE {
                    w.viol("live", true, format!("try_unwrap on #{} moved out a damaged value (id {}, canary {:x})", t, node.id, node.canary.get()));
                    return false;
                }
                w.objs[t as usize].ext -= 1;
                w.objs[t as usize].state = St::Unwrapped;
                w.purge_records(t);
                w.stats.consume_ok += 1;
                w.ev(Ev::Note(format!("value of #{} moved out by try_unwrap", t)));
                true
            });
            if !proceed {
                std::mem::forget(node);
                return Ok(());
            }
            // the program now owns the value: move its handles into program slots, then drop it
            loop {
                let h = node.out.borrow_mut().pop();
                let h = match h {
                    Some(h) => h,
                    None => break,
                };
                world::with(|w| {
                    let tgt = w.objs[t as usize].held.pop().expect("ledger/held mismatch");
                    w.push_handle(h, tgt);
                });
            }
            loop {
                let wk = node.weaks.borrow_mut().pop();
                let wk = match wk {
                    Some(x) => x,
                    None => break,
                };
                world::with(|w| {
                    let tgt = w.objs[t as usize].wheld.pop().expect("ledger/wheld mismatch");
                    w.push_weak(wk, tgt);
                });
            }
            node.script.borrow_mut().clear();
            drop(node);
            Ok(())
        }
    }
}

fn exec_make_mut(slot: usize) -> R {
    let (mut rc, t, s, wk) = world::with(|w| -> Result<(Rc<Node>, ObjId, u32, u32), String> {
        if w.handles.get(slot).map_or(true, |h| h.is_none()) {
            return inv("makemut: empty slot");
        }
        let t = w.htarget[slot];
        if w.objs[t as usize].state != St::Alive {
            return inv("makemut: target not alive");
        }
        let s = w.strong(t);
        let wk = w.weak(t);
        let rc = w.handles[slot].take().unwrap();
        w.makemut_pending = if s != 1 { Some(t) } else { None };
        w.makemut_cloned = None;
        Ok((rc, t, s, wk))
    })?;
    struct MmGuard;
    impl Drop for MmGuard {
        fn drop(&mut self) {
            let unwinding = std::thread::panicking();
            world::with(|w| {
                if w.makemut_cloned.is_some() {
                    w.drop_end(unwinding);
                }
            });
        }
    }
    let called = catch_unwind(AssertUnwindSafe(|| {
        let _g = MmGuard;
        let _l = LibGuard::enter();
        let r: &mut Node = Rc::make_mut(&mut rc);
        (r.id, r.canary.get())
    }));
    let (rid, rcan) = match called {
        Ok(x) => x,
        Err(payload) if payload.is::<crate::node::CloneBombPanic>() => {
            // The value's own `Clone` failed before copying anything. Nothing may have changed: the
            // caller's handle is the same handle to the same object (the sweep after this
            // operation compares every count and table, and the allocator the scratch box).
            alloc::restore(false);
            let addr = Rc::as_ptr(&rc) as usize;
            return world::with(|w| {
                w.makemut_pending = None;
                if w.makemut_cloned.take().is_some() {
                    w.harness_error("clone bomb went off after the clone was registered".into());
                }
                w.stats.clone_bombs += 1;
                if addr != w.objs[t as usize].addr {
                    w.viol("live", true, format!("Clone panicked inside make_mut on #{}: the caller's handle no longer refers to it ({:#x} vs {:#x})", t, addr, w.objs[t as usize].addr));
                    std::mem::forget(rc);
                    return Ok(());
                }
                w.ev(Ev::Note(format!("Clone panicked inside make_mut on #{}", t)));
                w.handles[slot] = Some(rc);
                Ok(())
            });
        }
        Err(payload) => {
            // A destructor panicked while make_mut released the old handle. The assignment that
            // installs the private copy completes on the unwinding path, so the caller's handle
            // must refer to the copy now, never to the (possibly destroyed) old object.
            alloc::restore(false);
            let addr = Rc::as_ptr(&rc) as usize;
            let keep = world::with(|w| {
                w.makemut_pending = None;
                match w.makemut_cloned.take() {
                    Some(nid) => {
                        if addr == w.objs[t as usize].addr {
                            w.viol(
                                "live",
                                true,
                                format!("a destructor panicked inside make_mut on #{}: the caller's handle still refers to the old object ({:?}) instead of the private copy", t, w.objs[t as usize].state),
                            );
                            false
                        } else {
                            let block = block_for(w, addr);
                            w.objs[nid as usize].addr = addr;
                            w.objs[nid as usize].block = block;
                            w.addr_index.insert(addr, nid);
                            w.objs[nid as usize].ext += 1;
                            w.htarget[slot] = nid;
                            true
                        }
                    }
                    None => true,
                }
            });
            if keep {
                world::with(|w| w.handles[slot] = Some(rc));
            } else {
                std::mem::forget(rc);
            }
            std::panic::resume_unwind(payload);
        }
    };
    let addr = Rc::as_ptr(&rc) as usize;
    world::with(|w| {
        w.makemut_pending = None;
        let cloned = w.makemut_cloned.take();
        if s != 1 {
            match cloned {
                Some(nid) => {
                    let block = block_for(w, addr);
                    w.objs[nid as usize].addr = addr;
                    w.objs[nid as usize].block = block;
                    w.addr_index.insert(addr, nid);
                    w.objs[nid as usize].ext += 1;
                    w.htarget[slot] = nid;
                    if rid != nid || rcan != CANARY_ALIVE {
                        w.viol("live", true, format!("make_mut (clone) on #{} yields a damaged value (id {}, canary {:x})", t, rid, rcan));
                    }
                    w.stats.consume_ok += 1;
                }
                None => {
                    // the value was moved out from under the other strong handles: whoever can reach
                    // them no longer finds the original, intact value
                    let rule = if w.reachable()[t as usize] { "live" } else { "count" };
                    w.viol(rule, true, format!("make_mut on shared #{} (strong {}) did not clone the value: the other handles now refer to a moved-out value", t, s));
                }
            }
        } else if wk != 0 {
            if cloned.is_some() {
                w.viol("count", true, format!("make_mut on sole-strong #{} cloned the value", t));
            }
            // the value moved to a new allocation; Weak handles stay with the given-up one
            if addr == w.objs[t as usize].addr {
                w.viol("weak", false, format!("make_mut on #{} with {} Weak handles kept the allocation (Weak handles not disassociated)", t, wk));
            } else {
                let old_addr = w.objs[t as usize].addr;
                let old_block = w.objs[t as usize].block;
                let g = w.new_obj(old_addr, old_block);
                w.objs[g as usize].state = St::Dead;
                w.objs[g as usize].ghost = true;
                w.objs[g as usize].begins = 1;
                w.objs[g as usize].ends = 1;
                w.objs[g as usize].wext = w.objs[t as usize].wext;
                w.objs[t as usize].wext = 0;
                for x in w.wtarget.iter_mut() {
                    if *x == Some(t) {
                        *x = Some(g);
                    }
                }
                for o in w.objs.iter_mut() {
                    for x in o.wheld.iter_mut() {
                        if *x == Some(t) {
                            *x = Some(g);
                        }
                    }
                }
                w.addr_index.remove(&old_addr);
                w.addr_index.insert(old_addr, g);
                let block = block_for(w, addr);
                w.objs[t as usize].addr = addr;
                w.objs[t as usize].block = block;
                w.addr_index.insert(addr, t);
                w.purge_records(t);
                w.objs[t as usize].table_used = false;
                w.ev(Ev::Note(format!("value of #{} moved to a new allocation by make_mut; old allocation is ghost #{}", t, g)));
            }
            if rid != t || rcan != CANARY_ALIVE {
                w.viol("live", true, format!("make_mut (move) on #{} yields a damaged value (id {}, canary {:x})", t, rid, rcan));
            }
            w.stats.consume_ok += 1;
        } else {
            if cloned.is_some() {
                w.viol("count", true, format!("make_mut on unique #{} cloned the value", t));
            }
            if addr != w.objs[t as usize].addr {
                w.viol("count", false, format!("make_mut on unique #{} changed the allocation", t));
            }
            if rid != t || rcan != CANARY_ALIVE {
                w.viol("live", true, format!("make_mut (unique) on #{} yields a damaged value (id {}, canary {:x})", t, rid, rcan));
            }
            w.stats.consume_noop += 1;
        }
        w.handles[slot] = Some(rc);
    });
    Ok(())
}

fn exec_clone_dead(k: usize, clone_from: bool) -> R {
    // only meaningful inside a destructor: clone own stored handle k whose target is dead
    let p = world::with(|w| -> Result<(*const Node, Option<usize>, ObjId, ObjId), String> {
        let &(me, np) = w.dying_stack.last().ok_or("clonedead: not in a destructor")?;
        let node = unsafe { &*np };
        let v = node.out.try_borrow().map_err(|_| "clonedead: busy")?;
        if k >= v.len() {
            return inv("clonedead: no such stored handle");
        }
        let held = &w.objs[me as usize].held;
        let t = *held.get(k).ok_or("clonedead: ledger")?;
        if w.objs[t as usize].state == St::Alive {
            return inv("clonedead: target is alive");
        }
        // a second own handle to the same destroyed target, if any
        let other = (0..held.len().min(v.len())).find(|&j| j != k && held[j] == t);
        Ok((np, other, me, t))
    })?;
    let (np, other, me, t) = p;
    // element pointers derived from one raw pointer to the vector's storage (nobody else looks at the
    // vector while the destructor script runs)
    let base: *mut Rc<Node> = unsafe { (*(*np).out.as_ptr()).as_mut_ptr() };
    let hp: *const Rc<Node> = unsafe { base.add(k) };
    if clone_from {
        // `Clone::clone_from` is a cloning entry point too: assigning a dead handle from a dead handle
        // (to the same destroyed object) must abort just the same
        {
            let out = std::io::stdout();
            let mut o = out.lock();
            let _ = writeln!(o, "BEFORE-CLONE me={} target={} clone_from same_target={}", me, t, other.is_some());
            let _ = o.flush();
        }
        match other {
            Some(j) => {
                let _l = LibGuard::enter();
                unsafe { Clone::clone_from(&mut *base.add(k), &*(base.add(j) as *const Rc<Node>)) };
            }
            None => {
                // destination: a bitwise copy of the same dead handle value
                let mut dst = std::mem::ManuallyDrop::new(unsafe { std::ptr::read(hp) });
                let _l = LibGuard::enter();
                unsafe { Clone::clone_from(&mut *dst, &*hp) };
            }
        }
        {
            let out = std::io::stdout();
            let mut o = out.lock();
            let _ = writeln!(o, "AFTER-CLONE me={} target={}", me, t);
            let _ = o.flush();
        }
        world::with(|w| {
            w.viol("deadclone", true, format!("clone_from on a handle to destroyed #{} inside the destructor of #{} returned", t, me));
        });
        return Ok(());
    }
    {
        let out = std::io::stdout();
        let mut o = out.lock();
        let _ = writeln!(o, "BEFORE-CLONE me={} target={}", me, t);
        let _ = o.flush();
    }
    let c = {
        let _l = LibGuard::enter();
        unsafe { Rc::clone(&*hp) }
    };
    {
        let out = std::io::stdout();
        let mut o = out.lock();
        let _ = writeln!(o, "AFTER-CLONE me={} target={}", me, t);
        let _ = o.flush();
    }
    world::with(|w| {
        w.viol("deadclone", true, format!("cloning a handle to destroyed #{} inside the destructor of #{} returned", t, me));
    });
    std::mem::forget(c);
    Ok(())
}

fn exec_clone_late(slot: usize) -> R {
    let p = world::with(|w| -> Result<(*const Rc<Node>, ObjId), String> {
        let h = w.handles.get(slot).and_then(|h| h.as_ref()).ok_or("clonelate: empty slot")?;
        let t = w.htarget[slot];
        if w.objs[t as usize].state == St::Alive {
            return inv("clonelate: target is alive");
        }
        // the allocation must still exist (a Weak keeps it): cloning a handle into released memory
        // is outside every contract
        if w.weak(t) == 0 {
            return inv("clonelate: no Weak keeps the allocation");
        }
        Ok((h as *const Rc<Node>, t))
    })?;
    let (hp, t) = p;
    {
        let out = std::io::stdout();
        let mut o = out.lock();
        let _ = writeln!(o, "BEFORE-CLONE me=program target={}", t);
        let _ = o.flush();
    }
    let c = {
        let _l = LibGuard::enter();
        unsafe { Rc::clone(&*hp) }
    };
    {
        let out = std::io::stdout();
        let mut o = out.lock();
        let _ = writeln!(o, "AFTER-CLONE me=program target={}", t);
        let _ = o.flush();
    }
    world::with(|w| {
        w.viol("deadclone", true, format!("cloning an escaped handle to destroyed #{} after the collection returned", t));
    });
    std::mem::forget(c);
    Ok(())
}

fn exec_drop_dead(k: usize) -> R {
    let h = world::with(|w| -> Result<Rc<Node>, String> {
        let &(me, np) = w.dying_stack.last().ok_or("dropdead: not in a destructor")?;
        let node = unsafe { &*np };
        let mut v = node.out.try_borrow_mut().map_err(|_| "dropdead: busy")?;
        if k >= v.len() {
            return inv("dropdead: no such stored handle");
        }
        let t = *w.objs[me as usize].held.get(k).ok_or("dropdead: ledger")?;
        if w.objs[t as usize].state == St::Alive {
            return inv("dropdead: target is alive");
        }
        let h = v.remove(k);
        w.objs[me as usize].held.remove(k);
        w.ev(Ev::Rel(me, t));
        w.drop_begin(t);
        w.stats.dead_drops += 1;
        Ok(h)
    })?;
    let _g = DropGuard;
    let _l = LibGuard::enter();
    drop(h);
    Ok(())
}

// ------------------------------------------------------------------------------------------------
// callbacks from the payload destructor

/// Which objects does an operation act on (for the "not being destroyed" rule of scripts)?
fn op_touches(w: &World, op: &Op) -> Option<Vec<ObjId>> {
    let mut v = vec![];
    let mut h = |r: &HRef, v: &mut Vec<ObjId>| -> Option<()> {
        v.push(w.href_target(*r)?);
        if let HRef::S(o, _) = r {
            v.push(*o);
        }
        Some(())
    };
    match op {
        Op::New | Op::NewVia(_) | Op::WeakNew | Op::WeakRawRound(_) | Op::Nop | Op::Panic => {}
        Op::Clone(r) | Op::Downgrade(r) | Op::IncStrong(r) => h(r, &mut v)?,
        Op::Adopt(a, b) | Op::Unadopt(a, b) => {
            h(a, &mut v)?;
            h(b, &mut v)?;
        }
        Op::Drop(s) | Op::TryUnwrap(s) | Op::MakeMut(s) | Op::GetMut(s) | Op::RawRound(s) | Op::DecStrong(s) => {
            h(&HRef::P(*s), &mut v)?
        }
        Op::Store(o, s) => {
            v.push(*o);
            h(&HRef::P(*s), &mut v)?
        }
        Op::Take(o, _) | Op::TakeWeak(o, _) | Op::MakeMutIn(o, _) => v.push(*o),
        Op::StoreWeak(o, _) => v.push(*o),
        Op::Upgrade(wr) | Op::CloneWeak(wr) => {
            if let Some(t) = w.wref_target(*wr)? {
                v.push(t);
            }
            if let WRef::S(o, _) = wr {
                v.push(*o);
            }
        }
        Op::DropWeak(_) => {}
        Op::Script(o, _, _) => v.push(*o),
        Op::CloneDead(_) | Op::CloneFromDead(_) | Op::DropDead(_) | Op::DowngradeOwn(_) | Op::EscapeOwn(_) | Op::CloneLate(_) => {}
        Op::Shallow(o) | Op::RawRelease(o) | Op::CloneBomb(o) | Op::CloneEvict(o) => v.push(*o),
    }
    Some(v)
}

pub fn run_scripts(node: &Node, when: When) {
    let acts: Vec<Op> = match node.script.try_borrow() {
        Ok(s) => s.iter().filter(|(w, _)| *w == when).map(|(_, o)| o.clone()).collect(),
        Err(_) => return,
    };
    let me = node.id;
    // actions come in groups separated by Nop; if one action of a group is not applicable the
    // rest of that group is skipped too (it would act on the wrong handles)
    let mut skipping = false;
    for op in acts {
        if op == Op::Nop {
            skipping = false;
            continue;
        }
        if skipping {
            world::with(|w| {
                w.stats.script_skips += 1;
                w.ev(Ev::ScriptSkip(me, format!("{} (earlier action of the group was skipped)", op)));
            });
            continue;
        }
        let op = world::with(|w| op.normalize(w.handles.len(), w.weaks.len()));
        // decide at run time whether the action is within the contract (acts only on objects
        // that are not being destroyed; upgrades of Weak handles to dying peers are allowed)
        let verdict = world::with(|w| -> Result<(), String> {
            if w.stop {
                return inv("history stopped");
            }
            match &op {
                Op::Panic | Op::CloneDead(_) | Op::CloneFromDead(_) | Op::DropDead(_) | Op::DowngradeOwn(_) | Op::EscapeOwn(_) => return Ok(()),
                Op::Upgrade(_) => return Ok(()),
                _ => {}
            }
            let touched = op_touches(w, &op).ok_or("unresolvable reference")?;
            let reach = w.reachable();
            for t in touched {
                if w.objs[t as usize].state != St::Alive {
                    return inv(format!("#{} is being destroyed or dead", t));
                }
                if !reach[t as usize] {
                    return inv(format!("#{} is not reachable by the program", t));
                }
                if w.predicted_by_stale(t) {
                    return inv(format!("#{} is being destroyed because of a stale record (known C13 finding)", t));
                }
            }
            Ok(())
        });
        match verdict {
            Err(why) => {
                world::with(|w| {
                    w.stats.script_skips += 1;
                    w.ev(Ev::ScriptSkip(me, format!("{} ({})", op, why)));
                });
                skipping = true;
                continue;
            }
            Ok(()) => {}
        }
        world::with(|w| {
            w.stats.script_actions += 1;
            w.ev(Ev::ScriptCall(me, op.to_string()));
        });
        if let Err(why) = exec(&op) {
            world::with(|w| {
                w.stats.script_skips += 1;
                w.ev(Ev::ScriptSkip(me, format!("{} ({})", op, why)));
            });
            skipping = true;
        }
    }
}

/// A dying value probes and then drops one of its own Weak handles.
pub fn probe_and_drop_own_weak(me: u32, wk: Weak<Node>) {
    let tgt = world::with(|w| w.objs[me as usize].wheld.pop());
    let tgt = match tgt {
        Some(t) => t,
        None => {
            world::with(|w| w.harness_error(format!("ledger of #{} has fewer stored Weak handles than its value", me)));
            std::mem::forget(wk);
            return;
        }
    };
    let (sc, wc, up) = {
        let _l = LibGuard::enter();
        let sc = wk.strong_count();
        let wc = wk.weak_count();
        let up = wk.upgrade();
        (sc, wc, up)
    };
    let keep = world::with(|w| {
        w.stats.wprobes += 1;
        w.ev(Ev::WProbe(me, tgt, up.is_some(), sc, wc));
        if let Some(t) = tgt {
            let st = w.objs[t as usize].state;
            if st == St::Alive {
                if w.reachable()[t as usize] && !w.predicted_by_stale(t) {
                    // this very handle is still in existence (popped from the ledger already)
                    let es = w.strong(t) as usize;
                    let ew = w.weak(t) as usize + 1;
                    if sc != es || wc != ew {
                        w.viol("weak", false, format!("inside destructor of #{}: Weak to live #{} reports strong {} weak {}, ledger says {} {}", me, t, sc, wc, es, ew));
                    }
                } else {
                    w.stats.wprobes_lenient += 1;
                }
            } else {
                w.stats.wprobes_dead += 1;
                if sc != 0 || wc != 0 {
                    w.viol("weak", false, format!("inside destructor of #{}: Weak to #{} ({:?}) reports strong {} weak {}, expected 0 0", me, t, st, sc, wc));
                }
            }
        } else if sc != 0 || wc != 0 {
            w.viol("weak", false, format!("dangling Weak reports strong {} weak {}", sc, wc));
        }
        let keep = check_upgrade(w, tgt, up, "upgrade inside a destructor");
        if let Some((_, t)) = &keep {
            // temporary program handle
            w.objs[*t as usize].ext += 1;
        }
        keep
    });
    if let Some((rc, t)) = keep {
        world::with(|w| {
            w.objs[t as usize].ext -= 1;
            w.drop_begin(t);
        });
        let _g = DropGuard;
        let _l = LibGuard::enter();
        drop(rc);
    }
    world::with(|w| w.ev(Ev::WRel(me, tgt)));
    let _l = LibGuard::enter();
    drop(wk);
}

// ------------------------------------------------------------------------------------------------
// top level

pub struct OpResult {
    pub applied: bool,
    pub panicked: bool,
}

/// Run one top-level operation with containment, then the quiescent-point sweep.
pub fn step(op: &Op) -> OpResult {
    if std::env::var_os("VH_DEBUG").is_some() {
        eprintln!("OP {}", op);
    }
    world::with(|w| {
        w.op_idx += 1;
        w.stats.ops += 1;
        w.panic_in_op = false;
        w.op_destroyed.clear();
        w.nonrequired_in_flight = false;
        w.deferred_required.clear();
        w.ops_applied.push(op.clone());
        if !w.cfg.light {
            w.ev(Ev::OpCall(w.op_idx, op.to_string()));
        }
    });
    let r = catch_unwind(AssertUnwindSafe(|| exec(op)));
    alloc::restore(false);
    let mut res = OpResult { applied: true, panicked: false };
    match r {
        Ok(Ok(())) => {
            world::with(|w| {
                if w.panic_in_op {
                    w.viol("panic", true, "a destructor panicked but the panic did not propagate to the caller of drop".into());
                }
            });
        }
        Ok(Err(why)) => {
            res.applied = false;
            world::with(|w| {
                if !w.cfg.light {
                    w.ev(Ev::Note(format!("op not applicable: {}", why)))
                }
            });
        }
        Err(payload) => {
            res.panicked = true;
            let scripted = payload.is::<ScriptedPanic>();
            world::with(|w| {
                // unwinding may have left contexts open
                while !w.drop_stack.is_empty() {
                    w.drop_end(true);
                }
                if scripted && w.panic_in_op {
                    w.ev(Ev::Note("scripted panic propagated to the caller".into()));
                } else {
                    let msg = if let Some(s) = payload.downcast_ref::<String>() {
                        s.clone()
                    } else if let Some(s) = payload.downcast_ref::<&str>() {
                        s.to_string()
                    } else {
                        "non-string panic payload".to_string()
                    };
                    let loc = w.last_panic_msg.take().unwrap_or_default();
                    w.viol("panic", true, format!("unexpected panic during `{}`: {} [{}]", op, msg, loc));
                }
            });
            std::mem::forget(payload);
        }
    }
    let stop = world::with(|w| {
        let mut d = w.digest;
        d = mix(d, w.op_idx as u64);
        let mut ds = w.op_destroyed.clone();
        ds.sort_unstable();
        for x in ds {
            d = mix(d, 0x1000 + x as u64);
        }
        w.digest = d;
        if !w.cfg.light {
            w.ev(Ev::OpRet(w.op_idx, format!("destroyed={:?}", w.op_destroyed)));
        }
        w.stop || (w.op_idx % w.cfg.sweep_every.max(1) != 0)
    });
    if !stop {
        sweep();
    }
    res
}

/// Quiescent-point checks: every alive object is inspected through the public API (and the H1
/// hook), every Weak handle is interrogated, allocation states are compared with the ledger.
pub fn sweep() {
    world::with(|w| {
        w.stats.sweeps += 1;
        if !w.drop_stack.is_empty() || !w.dying_stack.is_empty() {
            w.harness_error("sweep with open contexts".into());
            return;
        }
        let n = w.objs.len();
        let reach = w.reachable();
        // memory-safety flags raised by the allocator
        if alloc::ENABLED {
            alloc::verify_quarantine();
            let c = alloc::counters();
            if c.invalid_frees > 0 {
                w.viol("once", true, format!("allocator: {} invalid or double free(s), last at {:#x}", c.invalid_frees, alloc::fault_addr()));
            }
            if c.layout_mismatch > 0 {
                w.viol("once", true, format!("allocator: {} free(s) with a layout different from the allocation, last at {:#x}", c.layout_mismatch, alloc::fault_addr()));
            }
            if c.write_after_free > 0 {
                w.viol("once", true, format!("allocator: {} released block(s) were written to after release, last at {:#x}", c.write_after_free, alloc::fault_addr()));
            }
            if w.stop {
                return;
            }
        }
        // a reachable object must be alive
        for i in 0..n {
            if reach[i] && w.objs[i].state != St::Alive {
                w.viol("live", true, format!("#{} is reachable from program-held handles but is {:?}", i, w.objs[i].state));
                return;
            }
        }
        let mut d = w.digest;
        // objects
        for i in 0..n {
            if w.objs[i].state != St::Alive {
                continue;
            }
            let x = i as ObjId;
            let es = w.strong(x);
            let ew = w.weak(x);
            let href = match w.any_handle_to(x) {
                Some(h) => h,
                None => {
                    w.harness_error(format!("alive #{} has no handle in the ledger (strong {})", x, es));
                    return;
                }
            };
            let hp = match w.href_ptr(href) {
                Some(p) => p,
                None => {
                    w.harness_error(format!("cannot reach handle {} to #{}", href, x));
                    return;
                }
            };
            let (sc, wc, ap, nid, ncan) = unsafe {
                let h = &*hp;
                let node: &Node = &**h;
                (Rc::strong_count(h), Rc::weak_count(h), Rc::as_ptr(h) as usize, node.id, node.canary.get())
            };
            w.stats.count_obs += 1;
            w.stats.deref_obs += 1;
            if w.stats.begins > 0 && reach[i] {
                w.stats.deref_after_destroy_obs += 1;
            }
            d = mix(d, ((sc as u64) << 32) ^ wc as u64 ^ ((x as u64) << 48));
            if nid != x || ncan != CANARY_ALIVE {
                let rule = if reach[i] { "live" } else { "once" };
                w.viol(rule, true, format!("value of alive #{} is damaged: id field {}, canary {:#x}", x, nid, ncan));
                return;
            }
            if sc as u32 != es || wc as u32 != ew {
                // a dead marker on a reachable object is a premature destruction, not a miscount
                if sc == usize::MAX || sc == 0 {
                    let rule = if reach[i] { "live" } else { "once" };
                    w.viol(rule, true, format!("alive #{} carries a dead marker in its strong counter ({:#x})", x, sc));
                    return;
                }
                w.viol("count", false, format!("#{}: strong_count {} weak_count {}, ledger says {} {}", x, sc, wc, es, ew));
            }
            if ap != w.objs[i].addr {
                w.viol("count", false, format!("#{}: as_ptr {:#x} differs from the address at creation {:#x}", x, ap, w.objs[i].addr));
            }
            // all handles agree on identity
            let mut others: Vec<*const Rc<Node>> = vec![];
            for (s, h) in w.handles.iter().enumerate() {
                if let Some(h) = h {
                    if w.htarget[s] == x {
                        others.push(h as *const _);
                    }
                }
            }
            for oi in 0..n {
                if w.objs[oi].state != St::Alive {
                    continue;
                }
                for (k, &t) in w.objs[oi].held.iter().enumerate() {
                    if t == x {
                        if let Some(p) = w.href_ptr(HRef::S(oi as ObjId, k)) {
                            others.push(p);
                        }
                    }
                }
            }
            if others.len() as u32 != es {
                w.harness_error(format!("#{}: ledger strong {} but {} handles found", x, es, others.len()));
                return;
            }
            for p in others {
                let same = unsafe { Rc::ptr_eq(&*p, &*hp) && Rc::as_ptr(&*p) as usize == ap };
                if !same {
                    w.viol("count", false, format!("#{}: two handles to the same object disagree on ptr_eq/as_ptr", x));
                }
            }
        }
        // weak handles
        let mut wps: Vec<(*const Weak<Node>, Option<ObjId>)> = vec![];
        for (s, h) in w.weaks.iter().enumerate() {
            if let Some(h) = h {
                wps.push((h as *const _, w.wtarget[s]));
            }
        }
        for oi in 0..n {
            if w.objs[oi].state != St::Alive {
                continue;
            }
            for (k, &t) in w.objs[oi].wheld.iter().enumerate() {
                if let Some(p) = w.wref_ptr(WRef::S(oi as ObjId, k)) {
                    wps.push((p, t));
                }
            }
        }
        for (p, t) in wps {
            let (sc, wc) = unsafe { ((*p).strong_count(), (*p).weak_count()) };
            w.stats.weak_obs += 1;
            let (es, ew) = match t {
                Some(t) if w.objs[t as usize].state == St::Alive => (w.strong(t) as usize, w.weak(t) as usize),
                _ => (0, 0),
            };
            d = mix(d, ((sc as u64) << 20) ^ wc as u64);
            if sc != es || wc != ew {
                w.viol("weak", false, format!("Weak to {:?} reports strong {} weak {}, ledger says {} {}", t.map(|t| (t, w.objs[t as usize].state)), sc, wc, es, ew));
            }
        }
        w.digest = d;
        if w.cfg.check_links {
            check_links(w, false);
        }
        if w.cfg.check_mem && alloc::ENABLED && !w.mem_disarmed {
            check_mem(w);
        }
    });
}

/// R-links: link-table snapshots (hook H1) against the ledger.
pub fn check_links(w: &mut World, inflight: bool) {
    let n = w.objs.len();
    let mut snaps: Vec<Option<Vec<(usize, u8, usize)>>> = Vec::with_capacity(n);
    for i in 0..n {
        if w.objs[i].state == St::Alive && w.objs[i].addr == 0 {
            // value cloned by make_mut whose new allocation is not yet known to the ledger
            return;
        }
        if w.objs[i].state == St::Alive {
            let s = unsafe { Rc::<Node>::__verif_links(w.objs[i].addr as *const Node) };
            if s.is_none() {
                if inflight {
                    return; // an object the ledger still counts as alive is mid-teardown: not a quiescent view
                }
                w.viol("links", false, format!("alive #{} has no readable link table (dead marker)", i));
                return;
            }
            snaps.push(s);
        } else {
            snaps.push(None);
        }
    }
    let mut layout_digest = 0u64;
    for i in 0..n {
        let snap = match &snaps[i] {
            Some(s) => s,
            None => continue,
        };
        w.stats.links_obs += 1;
        w.stats.links_entries += snap.len() as u64;
        let o = i as ObjId;
        let mut fwd: std::collections::BTreeMap<ObjId, usize> = Default::default();
        let mut bwd: std::collections::BTreeMap<ObjId, usize> = Default::default();
        let mut lp = 0usize;
        let mut order: Vec<u64> = vec![];
        let mut bad: Option<String> = None;
        for &(addr, kind, count) in snap {
            let t = match w.addr_index.get(&addr) {
                Some(&t) if w.objs[t as usize].state == St::Alive && w.objs[t as usize].addr == addr => t,
                other => {
                    bad = Some(format!(
                        "table of #{} has an entry (kind {}, count {}) naming {:#x}, which is not a live object ({:?})",
                        o,
                        kind,
                        count,
                        addr,
                        other.map(|&t| (t, w.objs[t as usize].state))
                    ));
                    break;
                }
            };
            if count == 0 {
                bad = Some(format!("table of #{} keeps a zero-count entry for #{}", o, t));
                break;
            }
            order.push(((t as u64) << 2) | kind as u64);
            match kind {
                0 => *fwd.entry(t).or_insert(0) += count,
                1 => *bwd.entry(t).or_insert(0) += count,
                _ => {
                    if t != o {
                        bad = Some(format!("table of #{} has a loopback entry naming another object #{}", o, t));
                        break;
                    }
                    lp += count
                }
            }
        }
        if let Some(b) = bad {
            w.viol("links", false, b);
            continue;
        }
        // expected
        let mut efwd: std::collections::BTreeMap<ObjId, usize> = Default::default();
        let mut ebwd: std::collections::BTreeMap<ObjId, usize> = Default::default();
        for (&t, &c) in &w.objs[i].rec {
            if c > 0 && t != o {
                efwd.insert(t, c as usize);
            }
        }
        for a in 0..n {
            if a == i || w.objs[a].state != St::Alive {
                continue;
            }
            let c = w.rec_of(a as ObjId, o);
            if c > 0 {
                ebwd.insert(a as ObjId, c as usize);
            }
        }
        let self_rec = w.rec_of(o, o) as usize;
        let self_loop = w.objs[i].looprec as usize;
        let got_self_fwd = fwd.remove(&o).unwrap_or(0) + lp;
        let got_self_bwd = bwd.remove(&o).unwrap_or(0);
        let self_ok = got_self_fwd == self_rec + self_loop && (got_self_bwd == self_rec || got_self_bwd == self_rec + self_loop);
        if fwd != efwd || bwd != ebwd || !self_ok {
            w.viol(
                "links",
                false,
                format!(
                    "table of #{}: forward {:?} backward {:?} self(fwd+loop {}, bwd {}); ledger: forward {:?} backward {:?} self(recorded {}, same-handle {})",
                    o, fwd, bwd, got_self_fwd, got_self_bwd, efwd, ebwd, self_rec, self_loop
                ),
            );
        }
        if order.len() >= 2 {
            let mut keys = order.clone();
            keys.sort_unstable();
            let mut kh = 0u64;
            for k in &keys {
                kh = mix(kh, *k);
            }
            let mut oh = 0u64;
            for k in &order {
                oh = mix(oh, *k);
            }
            layout_digest = mix(layout_digest, oh);
            let e = w.order_seen.entry((o, kh)).or_default();
            if !e.contains(&oh) {
                e.push(oh);
            }
        }
    }
    if layout_digest != 0 {
        w.stats.table_orders = mix(w.stats.table_orders, layout_digest);
    }
}

/// R-mem (a): allocation states against the ledger at a quiescent point.
fn check_mem(w: &mut World) {
    let n = w.objs.len();
    let mut live_boxes = 0usize;
    let mut tables = 0usize;
    for i in 0..n {
        let (addr, serial) = match w.objs[i].block {
            Some(b) => b,
            None => continue,
        };
        let live = alloc::block_is_live(addr, serial);
        if live {
            live_boxes += 1;
        }
        w.stats.mem_obs += 1;
        let st = w.objs[i].state;
        let weaks = w.weak(i as ObjId);
        let expect_live = match st {
            St::Alive | St::Condemned | St::Dying => true,
            St::Dead | St::Unwrapped => weaks > 0,
        };
        if st == St::Alive && w.objs[i].table_used {
            tables += 1;
        }
        if live != expect_live {
            if expect_live {
                let rule = if st == St::Alive { "once" } else { "weak" };
                w.viol(rule, true, format!("allocation of #{} ({:?}, {} Weak handles left) has been released", i, st, weaks));
            } else {
                w.viol("mem", false, format!("allocation of #{} ({:?}, no Weak handle left) has not been released", i, st));
            }
        }
    }
    let c = alloc::counters();
    // (bound is deliberately loose: two blocks per live adopted object; an exact conservation check
    // follows at the end of the history)
    if c.lib_live_blocks > live_boxes + 2 * tables + 1 {
        w.viol(
            "mem",
            false,
            format!(
                "{} library blocks are live but only {} object allocations and at most {} link tables of live objects can account for them",
                c.lib_live_blocks, live_boxes, tables
            ),
        );
    }
}

/// R-mem (b): at the end of a history in which everything died, the library holds no memory.
pub fn check_mem_final() {
    world::with(|w| {
        if !alloc::ENABLED || !w.cfg.check_mem || w.mem_disarmed || w.stop {
            return;
        }
        let all_dead = w.objs.iter().all(|o| matches!(o.state, St::Dead));
        let no_handles = w.handles.iter().all(|h| h.is_none()) && w.weaks.iter().all(|h| h.is_none());
        if all_dead && no_handles {
            let c = alloc::counters();
            w.stats.mem_obs += 1;
            if c.lib_live_blocks != 0 || c.lib_live_bytes != 0 {
                w.viol(
                    "mem",
                    false,
                    format!("every object is destroyed and every Weak dropped, but the library still holds {} block(s) / {} byte(s)", c.lib_live_blocks, c.lib_live_bytes),
                );
            }
        }
    });
}
