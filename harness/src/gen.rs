//! History generators: G-enum (exhaustive small shapes), G-rand (seeded online generator),
//! teardown phase.

use std::collections::VecDeque;

use crate::ops::{HRef, ObjId, Op, WRef};
use crate::rng::Rng;
use crate::world::{Class, St, World};

// ------------------------------------------------------------------------------------------------
// G-enum

pub const PAIR_OPTS: [(u32, u32); 6] = [(0, 0), (1, 0), (1, 1), (2, 0), (2, 1), (2, 2)];

#[derive(Clone, Debug)]
pub struct EnumSpace {
    pub n: usize,
    pub pair_base: usize, // 3 (multiplicity <= 1) or 6 (<= 2)
    pub full_only: bool,  // only fully recorded shapes (pair options (0,0),(1,1),(2,2); self none/clone)
}

pub fn ordered_subsets(n: usize) -> Vec<Vec<usize>> {
    // all ordered subsets of 0..n
    let mut out = vec![vec![]];
    fn rec(n: usize, cur: &mut Vec<usize>, out: &mut Vec<Vec<usize>>) {
        for i in 0..n {
            if !cur.contains(&i) {
                cur.push(i);
                out.push(cur.clone());
                rec(n, cur, out);
                cur.pop();
            }
        }
    }
    let mut cur = vec![];
    rec(n, &mut cur, &mut out);
    out
}

impl EnumSpace {
    pub fn pair_opts(&self) -> Vec<(u32, u32)> {
        if self.full_only {
            if self.pair_base == 3 {
                vec![(0, 0), (1, 1)]
            } else {
                vec![(0, 0), (1, 1), (2, 2)]
            }
        } else {
            PAIR_OPTS[..self.pair_base].to_vec()
        }
    }
    pub fn self_opts(&self) -> usize {
        if self.full_only {
            2
        } else {
            4
        }
    }
    pub fn shapes(&self) -> u64 {
        let p = self.pair_opts().len() as u64;
        let pairs = (self.n * (self.n - 1)) as u32;
        p.pow(pairs) * (self.self_opts() as u64).pow(self.n as u32)
    }
    pub fn orders(&self) -> u64 {
        ordered_subsets(self.n).len() as u64
    }
    pub fn total(&self) -> u64 {
        self.shapes() * self.orders() * 4
    }

    /// Decode a flat index into a static op list (build phase + ordered drops).
    pub fn ops(&self, idx: u64) -> (Vec<Op>, String) {
        let n = self.n;
        let popts = self.pair_opts();
        let orders = ordered_subsets(n);
        let mut x = idx;
        let weak_mode = (x % 4) as usize;
        x /= 4;
        let order = &orders[(x % orders.len() as u64) as usize];
        x /= orders.len() as u64;
        let variant = crate::rng::mix(idx, 0x5EED);
        let mut ops = vec![];
        let mut next_slot = 0usize;
        let mut next_wslot = 0usize;
        let mut out_len = vec![0usize; n];
        let mut desc = String::new();
        for _ in 0..n {
            ops.push(Op::New);
            next_slot += 1;
        }
        let mut vbit = variant;
        let mut bit = || {
            let b = vbit & 1 == 1;
            vbit = vbit.rotate_right(1);
            b
        };
        for i in 0..n {
            for j in 0..n {
                if i == j {
                    continue;
                }
                let (held, rec) = popts[(x % popts.len() as u64) as usize];
                x /= popts.len() as u64;
                if held > 0 {
                    desc.push_str(&format!("{}->{}:{}/{} ", i, j, held, rec));
                }
                for c in 0..held {
                    ops.push(Op::Clone(HRef::P(j)));
                    let s = next_slot;
                    next_slot += 1;
                    let recorded = c < rec;
                    if recorded && bit() {
                        ops.push(Op::Adopt(HRef::P(i), HRef::P(s)));
                        ops.push(Op::Store(i as ObjId, s));
                    } else {
                        ops.push(Op::Store(i as ObjId, s));
                        if recorded {
                            ops.push(Op::Adopt(HRef::P(i), HRef::S(i as ObjId, out_len[i])));
                        }
                    }
                    out_len[i] += 1;
                }
            }
        }
        for i in 0..n {
            let so = (x % self.self_opts() as u64) as usize;
            x /= self.self_opts() as u64;
            // 0 none, 1 recorded through a clone, 2 unrecorded, 3 recorded through the same handle
            let so = if self.full_only { so } else { [0, 2, 1, 3][so] };
            if so == 0 {
                continue;
            }
            desc.push_str(&format!("{}->{}:self{} ", i, i, so));
            ops.push(Op::Clone(HRef::P(i)));
            let s = next_slot;
            next_slot += 1;
            match so {
                1 => {
                    if bit() {
                        ops.push(Op::Adopt(HRef::P(i), HRef::P(s)));
                        ops.push(Op::Store(i as ObjId, s));
                    } else {
                        ops.push(Op::Store(i as ObjId, s));
                        ops.push(Op::Adopt(HRef::P(i), HRef::S(i as ObjId, out_len[i])));
                    }
                }
                2 => ops.push(Op::Store(i as ObjId, s)),
                _ => {
                    ops.push(Op::Store(i as ObjId, s));
                    let r = HRef::S(i as ObjId, out_len[i]);
                    ops.push(Op::Adopt(r, r));
                }
            }
            out_len[i] += 1;
        }
        // weak placement: bit0 outside, bit1 inside
        if weak_mode & 1 != 0 {
            for i in 0..n {
                ops.push(Op::Downgrade(HRef::P(i)));
                next_wslot += 1;
            }
        }
        if weak_mode & 2 != 0 {
            for i in 0..n {
                for j in 0..n {
                    ops.push(Op::Downgrade(HRef::P(j)));
                    ops.push(Op::StoreWeak(i as ObjId, next_wslot));
                    next_wslot += 1;
                }
            }
        }
        desc.push_str(&format!("| weak{} drop{:?}", weak_mode, order));
        for &d in order {
            ops.push(Op::Drop(d));
        }
        (ops, desc)
    }
}

// ------------------------------------------------------------------------------------------------
// teardown: make every object die (needed for exact memory conservation)

pub struct Teardown {
    pending: VecDeque<Op>,
    rng: Rng,
    pub steps: usize,
}

impl Teardown {
    pub fn new(seed: u64) -> Teardown {
        Teardown { pending: VecDeque::new(), rng: Rng::new(seed), steps: 0 }
    }

    pub fn next(&mut self, w: &World) -> Option<Op> {
        self.steps += 1;
        if self.steps > 10_000 {
            return None;
        }
        if let Some(op) = self.pending.pop_front() {
            return Some(op);
        }
        // 1. program-held strong handles
        let live: Vec<usize> = (0..w.handles.len()).filter(|&s| w.handles[s].is_some()).collect();
        if !live.is_empty() {
            let s = live[self.rng.below(live.len())];
            return Some(Op::Drop(s));
        }
        // 2. dismantle garbage through the raw value pointer
        for (oi, o) in w.objs.iter().enumerate() {
            if o.state == St::Alive && !o.held.is_empty() {
                let k = o.held.len() - 1;
                let t = o.held[k];
                let mut slot = w.handles.len(); // slot the taken handle will occupy
                if o.looprec > 0 && t == oi as ObjId {
                    let r = HRef::S(oi as ObjId, k);
                    for _ in 0..o.looprec {
                        self.pending.push_back(Op::Unadopt(r, r));
                    }
                }
                if w.rec_of(oi as ObjId, t) > 0 {
                    // a handle to the owner other than the one being removed
                    let other = all_hrefs(w).into_iter().find(|(h, tt)| *tt == oi as ObjId && *h != HRef::S(oi as ObjId, k));
                    match other {
                        Some((h, _)) => self.pending.push_back(Op::Unadopt(h, HRef::S(oi as ObjId, k))),
                        None => {
                            // the only handle to the owner is the self-handle being removed: make a
                            // second one first (it is dropped by step 1 afterwards)
                            self.pending.push_back(Op::Clone(HRef::S(oi as ObjId, k)));
                            self.pending.push_back(Op::Unadopt(HRef::P(slot), HRef::S(oi as ObjId, k)));
                            slot += 1;
                        }
                    }
                }
                self.pending.push_back(Op::Take(oi as ObjId, k));
                self.pending.push_back(Op::Drop(slot));
                return self.pending.pop_front();
            }
        }
        // 3. weak handles
        for s in 0..w.weaks.len() {
            if w.weaks[s].is_some() {
                return Some(Op::DropWeak(s));
            }
        }
        None
    }
}

// ------------------------------------------------------------------------------------------------
// G-rand

#[derive(Clone, Debug)]
pub struct RandCfg {
    pub class: Class,
    pub max_objs: usize,
    pub len: usize,
    pub weak_bias: u32,
    pub consume_bias: u32,
}

pub struct RandGen {
    pub cfg: RandCfg,
    pub rng: Rng,
    pending: VecDeque<Op>,
    emitted: usize,
}

fn all_hrefs(w: &World) -> Vec<(HRef, ObjId)> {
    let mut v = vec![];
    for s in 0..w.handles.len() {
        if w.handles[s].is_some() {
            v.push((HRef::P(s), w.htarget[s]));
        }
    }
    for (oi, o) in w.objs.iter().enumerate() {
        if o.state == St::Alive {
            for (k, &t) in o.held.iter().enumerate() {
                v.push((HRef::S(oi as ObjId, k), t));
            }
        }
    }
    v
}

fn all_wrefs(w: &World) -> Vec<(WRef, Option<ObjId>)> {
    let mut v = vec![];
    for s in 0..w.weaks.len() {
        if w.weaks[s].is_some() {
            v.push((WRef::P(s), w.wtarget[s]));
        }
    }
    for (oi, o) in w.objs.iter().enumerate() {
        if o.state == St::Alive {
            for (k, &t) in o.wheld.iter().enumerate() {
                v.push((WRef::S(oi as ObjId, k), t));
            }
        }
    }
    v
}

/// recorded adoptions o -> t of both calling styles
fn total_rec(w: &World, o: ObjId, t: ObjId) -> u32 {
    w.rec_of(o, t) + if o == t { w.objs[o as usize].looprec } else { 0 }
}

fn held_count(w: &World, o: ObjId, t: ObjId) -> u32 {
    w.objs[o as usize].held.iter().filter(|&&x| x == t).count() as u32
}

impl RandGen {
    pub fn new(cfg: RandCfg, seed: u64) -> RandGen {
        RandGen { cfg, rng: Rng::new(seed), pending: VecDeque::new(), emitted: 0 }
    }

    fn adopts_allowed(&self) -> bool {
        self.cfg.class != Class::NoAdopt
    }

    pub fn next(&mut self, w: &World) -> Option<Op> {
        if let Some(op) = self.pending.pop_front() {
            return Some(op);
        }
        if self.emitted >= self.cfg.len {
            return None;
        }
        for _ in 0..50 {
            if let Some(op) = self.try_next(w) {
                self.emitted += 1;
                return Some(op);
            }
        }
        self.emitted += 1;
        Some(Op::Nop)
    }

    fn try_next(&mut self, w: &World) -> Option<Op> {
        let class = self.cfg.class;
        let reach = w.reachable();
        let alive: Vec<ObjId> = (0..w.objs.len() as ObjId).filter(|&i| w.objs[i as usize].state == St::Alive).collect();
        let reachable_alive: Vec<ObjId> = alive.iter().copied().filter(|&i| reach[i as usize]).collect();
        let prog: Vec<usize> = (0..w.handles.len()).filter(|&s| w.handles[s].is_some()).collect();
        let wb = self.cfg.weak_bias;
        let cb = self.cfg.consume_bias;
        // weighted menu
        let menu: [(u32, u8); 22] = [
            (if alive.len() < self.cfg.max_objs { 7 } else { 0 }, 0), // new
            (6, 1),                                                   // clone
            (9, 2),                                                   // drop
            (12, 3),                                                  // store (+adopt)
            (6, 4),                                                   // take (+unadopt)
            (if self.adopts_allowed() && class != Class::Full { 3 } else { 0 }, 5), // adopt an already stored handle
            (if self.adopts_allowed() && class != Class::Full { 2 } else { 0 }, 6), // stray unadopt
            (2 * wb, 7),                                              // downgrade
            (2 * wb, 8),                                              // upgrade
            (wb, 9),                                                  // clone weak
            (wb, 10),                                                 // drop weak
            (wb, 11),                                                 // store weak
            (if wb > 0 { 1 } else { 0 }, 12),                         // take weak
            (if wb > 0 { 1 } else { 0 }, 13),                         // Weak::new
            (cb, 14),                                                 // try_unwrap
            (cb, 15),                                                 // make_mut
            (cb, 16),                                                 // get_mut
            (cb, 17),                                                 // raw round trip
            (cb, 18),                                                 // increment_strong_count
            (cb, 19),                                                 // decrement_strong_count
            (if self.adopts_allowed() && class != Class::Full { 1 } else { 0 }, 20), // same-handle self adoption
            (3, 21),                                                  // upgrade + immediate drop (probe)
        ];
        let total: u32 = menu.iter().map(|m| m.0).sum();
        let mut r = (self.rng.next() % total as u64) as u32;
        let mut choice = 0u8;
        for (wgt, c) in menu.iter() {
            if r < *wgt {
                choice = *c;
                break;
            }
            r -= *wgt;
        }
        match choice {
            0 => Some(Op::New),
            1 => {
                let hs = all_hrefs(w);
                let hs: Vec<_> = hs.into_iter().filter(|(h, _)| matches!(h, HRef::P(_)) || self.is_reachable_owner(w, &reach, h)).collect();
                self.rng.pick(&hs).map(|(h, _)| Op::Clone(*h))
            }
            2 => self.rng.pick(&prog).map(|&s| Op::Drop(s)),
            3 => {
                // store a program handle into an object, recorded or not
                let &s = self.rng.pick(&prog)?;
                let t = w.htarget[s];
                let owners = if self.rng.chance(9, 10) || alive.len() == reachable_alive.len() { &reachable_alive } else { &alive };
                let &o = self.rng.pick(owners)?;
                let k = w.objs[o as usize].held.len();
                let record = match class {
                    Class::NoAdopt => false,
                    Class::Full => true,
                    _ => self.rng.chance(7, 10),
                };
                if !record {
                    return Some(Op::Store(o, s));
                }
                // a handle to the owner that is not the handle being stored
                let cands: Vec<HRef> = all_hrefs(w).into_iter().filter(|(h, tt)| *tt == o && *h != HRef::P(s)).map(|(h, _)| h).collect();
                let this = match self.rng.pick(&cands) {
                    Some(&h) => h,
                    None => {
                        if class == Class::Full {
                            return None;
                        }
                        return Some(Op::Store(o, s));
                    }
                };
                let _ = t;
                if self.rng.chance(1, 2) {
                    self.pending.push_back(Op::Store(o, s));
                    Some(Op::Adopt(this, HRef::P(s)))
                } else {
                    // `this` may itself be a stored handle of the same owner: indices stay valid
                    // because the new handle is appended
                    self.pending.push_back(Op::Adopt(this, HRef::S(o, k)));
                    Some(Op::Store(o, s))
                }
            }
            4 => {
                let owners: Vec<ObjId> = alive.iter().copied().filter(|&o| !w.objs[o as usize].held.is_empty() && (reach[o as usize] || self.rng.chance(1, 10))).collect();
                let &o = self.rng.pick(&owners)?;
                let k = self.rng.below(w.objs[o as usize].held.len());
                let t = w.objs[o as usize].held[k];
                if t == o && w.objs[o as usize].looprec > 0 && class != Class::Elide {
                    // same-handle records can only be removed through that very handle: do it first
                    let r = HRef::S(o, k);
                    for _ in 1..w.objs[o as usize].looprec {
                        self.pending.push_back(Op::Unadopt(r, r));
                    }
                    return Some(Op::Unadopt(r, r));
                }
                let rec = w.rec_of(o, t);
                let held_after = held_count(w, o, t) - 1;
                let must_unadopt = rec > held_after;
                let elide = class == Class::Elide && self.rng.chance(1, 2);
                let new_slot = w.handles.len();
                let want_unadopt = match class {
                    Class::NoAdopt => false,
                    Class::Full => true,
                    _ => (must_unadopt && !elide) || (rec > 0 && self.rng.chance(1, 3)),
                };
                let drop_after = self.rng.chance(1, 2);
                if want_unadopt {
                    let cands: Vec<HRef> = all_hrefs(w).into_iter().filter(|(h, tt)| *tt == o && *h != HRef::S(o, k)).map(|(h, _)| h).collect();
                    // stored handles of the same owner after index k shift down by one when k is removed
                    match self.rng.pick(&cands) {
                        Some(&this) => {
                            if self.rng.chance(1, 2) {
                                self.pending.push_back(Op::Take(o, k));
                                if drop_after {
                                    self.pending.push_back(Op::Drop(new_slot));
                                }
                                return Some(Op::Unadopt(this, HRef::S(o, k)));
                            } else {
                                let this2 = match this {
                                    HRef::S(oo, kk) if oo == o && kk > k => HRef::S(oo, kk - 1),
                                    x => x,
                                };
                                self.pending.push_back(Op::Unadopt(this2, HRef::P(new_slot)));
                                if drop_after {
                                    self.pending.push_back(Op::Drop(new_slot));
                                }
                                return Some(Op::Take(o, k));
                            }
                        }
                        None => {
                            if must_unadopt && class != Class::Elide {
                                return None; // cannot keep the history well-formed
                            }
                        }
                    }
                } else if must_unadopt && class != Class::Elide {
                    return None;
                }
                if drop_after {
                    self.pending.push_back(Op::Drop(new_slot));
                }
                Some(Op::Take(o, k))
            }
            5 => {
                // adopt a handle that is already stored and not yet recorded
                let mut cands = vec![];
                for &o in &alive {
                    if !reach[o as usize] && !self.rng.chance(1, 10) {
                        continue;
                    }
                    for (k, &t) in w.objs[o as usize].held.iter().enumerate() {
                        if total_rec(w, o, t) < held_count(w, o, t) {
                            cands.push((o, k));
                        }
                    }
                }
                let &(o, k) = self.rng.pick(&cands)?;
                let thiss: Vec<HRef> = all_hrefs(w).into_iter().filter(|(h, tt)| *tt == o && *h != HRef::S(o, k)).map(|(h, _)| h).collect();
                let &this = self.rng.pick(&thiss)?;
                Some(Op::Adopt(this, HRef::S(o, k)))
            }
            6 => {
                // stray unadopt: redundant, unmatched, or removing a real record (edge becomes unrecorded)
                let hs = all_hrefs(w);
                let &(a, _) = self.rng.pick(&hs)?;
                let &(b, _) = self.rng.pick(&hs)?;
                Some(Op::Unadopt(a, b))
            }
            7 => {
                let hs = all_hrefs(w);
                self.rng.pick(&hs).map(|(h, _)| Op::Downgrade(*h))
            }
            8 => {
                let ws = all_wrefs(w);
                self.rng.pick(&ws).map(|(x, _)| Op::Upgrade(*x))
            }
            9 => {
                let ws = all_wrefs(w);
                self.rng.pick(&ws).map(|(x, _)| Op::CloneWeak(*x))
            }
            10 => {
                let ws: Vec<usize> = (0..w.weaks.len()).filter(|&s| w.weaks[s].is_some()).collect();
                self.rng.pick(&ws).map(|&s| Op::DropWeak(s))
            }
            11 => {
                let ws: Vec<usize> = (0..w.weaks.len()).filter(|&s| w.weaks[s].is_some()).collect();
                let &s = self.rng.pick(&ws)?;
                let &o = self.rng.pick(&alive)?;
                Some(Op::StoreWeak(o, s))
            }
            12 => {
                let owners: Vec<ObjId> = alive.iter().copied().filter(|&o| !w.objs[o as usize].wheld.is_empty()).collect();
                let &o = self.rng.pick(&owners)?;
                Some(Op::TakeWeak(o, self.rng.below(w.objs[o as usize].wheld.len())))
            }
            13 => Some(Op::WeakNew),
            14 => self.rng.pick(&prog).map(|&s| Op::TryUnwrap(s)),
            15 => self.rng.pick(&prog).map(|&s| Op::MakeMut(s)),
            16 => self.rng.pick(&prog).map(|&s| Op::GetMut(s)),
            17 => self.rng.pick(&prog).map(|&s| Op::RawRound(s)),
            18 => {
                let hs = all_hrefs(w);
                self.rng.pick(&hs).map(|(h, _)| Op::IncStrong(*h))
            }
            19 => self.rng.pick(&prog).map(|&s| Op::DecStrong(s)),
            20 => {
                // same-handle self adoption, only on a stored self-handle (strict well-formedness)
                let mut cands = vec![];
                for &o in &alive {
                    for (k, &t) in w.objs[o as usize].held.iter().enumerate() {
                        if t == o && (total_rec(w, o, o) < held_count(w, o, o) || class == Class::Elide) {
                            cands.push(HRef::S(o, k));
                        }
                    }
                }
                let &r = self.rng.pick(&cands)?;
                Some(Op::Adopt(r, r))
            }
            _ => {
                let ws = all_wrefs(w);
                let &(x, t) = self.rng.pick(&ws)?;
                if let Some(t) = t {
                    if w.objs[t as usize].state == St::Alive {
                        self.pending.push_back(Op::Drop(w.handles.len()));
                    }
                }
                Some(Op::Upgrade(x))
            }
        }
    }

    fn is_reachable_owner(&self, _w: &World, reach: &[bool], h: &HRef) -> bool {
        match h {
            HRef::P(_) => true,
            HRef::S(o, _) => reach[*o as usize],
        }
    }
}
