//! History generators: G-enum (exhaustive small shapes), G-rand (seeded online generator),
//! teardown phase.

use std::collections::VecDeque;

use crate::ops::{HRef, ObjId, Op, WRef, When};
use crate::rng::Rng;
use crate::world::{Class, St, World};

// ------------------------------------------------------------------------------------------------
// G-enum

pub const PAIR_OPTS: [(u32, u32); 6] = [(0, 0), (1, 0), (1, 1), (2, 0), (2, 1), (2, 2)];

#[derive(Clone, Debug)]
pub struct EnumSpace {
    pub n: usize,
    pub pair_base: usize, // 3 (multiplicity <= 1) or 6 (<= 2)
    pub full_only: bool,  // only fully recorded shapes (pair options (0,0),(1,1),(2,2); self none/clone)
}

pub fn ordered_subsets(n: usize) -> Vec<Vec<usize>> {
    // all ordered subsets of 0..n
    let mut out = vec![vec![]];
    fn rec(n: usize, cur: &mut Vec<usize>, out: &mut Vec<Vec<usize>>) {
        for i in 0..n {
            if !cur.contains(&i) {
                cur.push(i);
                out.push(cur.clone());
                rec(n, cur, out);
                cur.pop();
            }
        }
    }
    let mut cur = vec![];
    rec(n, &mut cur, &mut out);
    out
}

impl EnumSpace {
    pub fn pair_opts(&self) -> Vec<(u32, u32)> {
        if self.full_only {
            if self.pair_base == 3 {
                vec![(0, 0), (1, 1)]
            } else {
                vec![(0, 0), (1, 1), (2, 2)]
            }
        } else {
            PAIR_OPTS[..self.pair_base].to_vec()
        }
    }
    pub fn self_opts(&self) -> usize {
        if self.full_only {
            2
        } else {
            4
        }
    }
    pub fn shapes(&self) -> u64 {
        let p = self.pair_opts().len() as u64;
        let pairs = (self.n * (self.n - 1)) as u32;
        p.pow(pairs) * (self.self_opts() as u64).pow(self.n as u32)
    }
    pub fn orders(&self) -> u64 {
        ordered_subsets(self.n).len() as u64
    }
    pub fn total(&self) -> u64 {
        self.shapes() * self.orders() * 4
    }

    /// Decode a flat index into a static op list (build phase + ordered drops).
    pub fn ops(&self, idx: u64) -> (Vec<Op>, String) {
        let n = self.n;
        let popts = self.pair_opts();
        let orders = ordered_subsets(n);
        let mut x = idx;
        let weak_mode = (x % 4) as usize;
        x /= 4;
        let order = &orders[(x % orders.len() as u64) as usize];
        x /= orders.len() as u64;
        let variant = crate::rng::mix(idx, 0x5EED);
        let mut ops = vec![];
        let mut next_slot = 0usize;
        let mut next_wslot = 0usize;
        let mut out_len = vec![0usize; n];
        let mut desc = String::new();
        for _ in 0..n {
            ops.push(Op::New);
            next_slot += 1;
        }
        let mut vbit = variant;
        let mut bit = || {
            let b = vbit & 1 == 1;
            vbit = vbit.rotate_right(1);
            b
        };
        for i in 0..n {
            for j in 0..n {
                if i == j {
                    continue;
                }
                let (held, rec) = popts[(x % popts.len() as u64) as usize];
                x /= popts.len() as u64;
                if held > 0 {
                    desc.push_str(&format!("{}->{}:{}/{} ", i, j, held, rec));
                }
                for c in 0..held {
                    ops.push(Op::Clone(HRef::P(j)));
                    let s = next_slot;
                    next_slot += 1;
                    let recorded = c < rec;
                    if recorded && bit() {
                        ops.push(Op::Adopt(HRef::P(i), HRef::P(s)));
                        ops.push(Op::Store(i as ObjId, s));
                    } else {
                        ops.push(Op::Store(i as ObjId, s));
                        if recorded {
                            ops.push(Op::Adopt(HRef::P(i), HRef::S(i as ObjId, out_len[i])));
                        }
                    }
                    out_len[i] += 1;
                }
            }
        }
        for i in 0..n {
            let so = (x % self.self_opts() as u64) as usize;
            x /= self.self_opts() as u64;
            // 0 none, 1 recorded through a clone, 2 unrecorded, 3 recorded through the same handle
            let so = if self.full_only { so } else { [0, 2, 1, 3][so] };
            if so == 0 {
                continue;
            }
            desc.push_str(&format!("{}->{}:self{} ", i, i, so));
            ops.push(Op::Clone(HRef::P(i)));
            let s = next_slot;
            next_slot += 1;
            match so {
                1 => {
                    if bit() {
                        ops.push(Op::Adopt(HRef::P(i), HRef::P(s)));
                        ops.push(Op::Store(i as ObjId, s));
                    } else {
                        ops.push(Op::Store(i as ObjId, s));
                        ops.push(Op::Adopt(HRef::P(i), HRef::S(i as ObjId, out_len[i])));
                    }
                }
                2 => ops.push(Op::Store(i as ObjId, s)),
                _ => {
                    ops.push(Op::Store(i as ObjId, s));
                    let r = HRef::S(i as ObjId, out_len[i]);
                    ops.push(Op::Adopt(r, r));
                }
            }
            out_len[i] += 1;
        }
        // weak placement: bit0 outside, bit1 inside
        if weak_mode & 1 != 0 {
            for i in 0..n {
                ops.push(Op::Downgrade(HRef::P(i)));
                next_wslot += 1;
            }
        }
        if weak_mode & 2 != 0 {
            for i in 0..n {
                for j in 0..n {
                    ops.push(Op::Downgrade(HRef::P(j)));
                    ops.push(Op::StoreWeak(i as ObjId, next_wslot));
                    next_wslot += 1;
                }
            }
        }
        desc.push_str(&format!("| weak{} drop{:?}", weak_mode, order));
        for &d in order {
            ops.push(Op::Drop(d));
        }
        (ops, desc)
    }
}

// ------------------------------------------------------------------------------------------------
// teardown: make every object die (needed for exact memory conservation)

pub struct Teardown {
    pending: VecDeque<Op>,
    rng: Rng,
    pub steps: usize,
}

impl Teardown {
    pub fn new(seed: u64) -> Teardown {
        Teardown { pending: VecDeque::new(), rng: Rng::new(seed), steps: 0 }
    }

    pub fn next(&mut self, w: &World) -> Option<Op> {
        self.steps += 1;
        if self.steps > 10_000 {
            return None;
        }
        if let Some(op) = self.pending.pop_front() {
            return Some(op);
        }
        // 1. program-held strong handles
        let live: Vec<usize> = (0..w.handles.len()).filter(|&s| w.handles[s].is_some()).collect();
        if !live.is_empty() {
            let s = live[self.rng.below(live.len())];
            return Some(Op::Drop(s));
        }
        // 2. dismantle garbage through the raw value pointer
        for (oi, o) in w.objs.iter().enumerate() {
            if o.state == St::Alive && !o.held.is_empty() {
                let k = o.held.len() - 1;
                let t = o.held[k];
                let mut slot = w.handles.len(); // slot the taken handle will occupy
                if o.looprec > 0 && t == oi as ObjId {
                    let r = HRef::S(oi as ObjId, k);
                    for _ in 0..o.looprec {
                        self.pending.push_back(Op::Unadopt(r, r));
                    }
                }
                if w.rec_of(oi as ObjId, t) > 0 {
                    // a handle to the owner other than the one being removed
                    let other = all_hrefs(w).into_iter().find(|(h, tt)| *tt == oi as ObjId && *h != HRef::S(oi as ObjId, k));
                    match other {
                        Some((h, _)) => self.pending.push_back(Op::Unadopt(h, HRef::S(oi as ObjId, k))),
                        None => {
                            // the only handle to the owner is the self-handle being removed: make a
                            // second one first (it is dropped by step 1 afterwards)
                            self.pending.push_back(Op::Clone(HRef::S(oi as ObjId, k)));
                            self.pending.push_back(Op::Unadopt(HRef::P(slot), HRef::S(oi as ObjId, k)));
                            slot += 1;
                        }
                    }
                }
                self.pending.push_back(Op::Take(oi as ObjId, k));
                self.pending.push_back(Op::Drop(slot));
                return self.pending.pop_front();
            }
        }
        // 3. weak handles
        for s in 0..w.weaks.len() {
            if w.weaks[s].is_some() {
                return Some(Op::DropWeak(s));
            }
        }
        None
    }
}

// ------------------------------------------------------------------------------------------------
// G-rand

#[derive(Clone, Debug)]
pub struct RandCfg {
    pub class: Class,
    pub max_objs: usize,
    pub len: usize,
    pub weak_bias: u32,
    pub consume_bias: u32,
}

pub struct RandGen {
    pub cfg: RandCfg,
    pub rng: Rng,
    pending: VecDeque<Op>,
    emitted: usize,
}

/// all strong handles whose target is alive (an unreachable object may legitimately keep a
/// handle to a destroyed one after an elided unadopt)
fn all_hrefs(w: &World) -> Vec<(HRef, ObjId)> {
    let mut v = vec![];
    for s in 0..w.handles.len() {
        if w.handles[s].is_some() && w.objs[w.htarget[s] as usize].state == St::Alive {
            v.push((HRef::P(s), w.htarget[s]));
        }
    }
    for (oi, o) in w.objs.iter().enumerate() {
        if o.state == St::Alive {
            for (k, &t) in o.held.iter().enumerate() {
                if w.objs[t as usize].state == St::Alive {
                    v.push((HRef::S(oi as ObjId, k), t));
                }
            }
        }
    }
    v
}

fn all_wrefs(w: &World) -> Vec<(WRef, Option<ObjId>)> {
    let mut v = vec![];
    for s in 0..w.weaks.len() {
        if w.weaks[s].is_some() {
            v.push((WRef::P(s), w.wtarget[s]));
        }
    }
    for (oi, o) in w.objs.iter().enumerate() {
        if o.state == St::Alive {
            for (k, &t) in o.wheld.iter().enumerate() {
                v.push((WRef::S(oi as ObjId, k), t));
            }
        }
    }
    v
}

/// recorded adoptions o -> t of both calling styles
fn total_rec(w: &World, o: ObjId, t: ObjId) -> u32 {
    w.rec_of(o, t) + if o == t { w.objs[o as usize].looprec } else { 0 }
}

fn held_count(w: &World, o: ObjId, t: ObjId) -> u32 {
    w.objs[o as usize].held.iter().filter(|&&x| x == t).count() as u32
}

impl RandGen {
    pub fn new(cfg: RandCfg, seed: u64) -> RandGen {
        RandGen { cfg, rng: Rng::new(seed), pending: VecDeque::new(), emitted: 0 }
    }

    fn adopts_allowed(&self) -> bool {
        self.cfg.class != Class::NoAdopt
    }

    pub fn next(&mut self, w: &World) -> Option<Op> {
        if let Some(op) = self.pending.pop_front() {
            return Some(op);
        }
        if self.emitted >= self.cfg.len {
            return None;
        }
        for _ in 0..50 {
            if let Some(op) = self.try_next(w) {
                self.emitted += 1;
                return Some(op);
            }
        }
        self.emitted += 1;
        Some(Op::Nop)
    }

    fn try_next(&mut self, w: &World) -> Option<Op> {
        let class = self.cfg.class;
        let reach = w.reachable();
        let alive: Vec<ObjId> = (0..w.objs.len() as ObjId).filter(|&i| w.objs[i as usize].state == St::Alive).collect();
        let reachable_alive: Vec<ObjId> = alive.iter().copied().filter(|&i| reach[i as usize]).collect();
        let prog: Vec<usize> = (0..w.handles.len()).filter(|&s| w.handles[s].is_some()).collect();
        let wb = self.cfg.weak_bias;
        let cb = self.cfg.consume_bias;
        // weighted menu
        let menu: [(u32, u8); 24] = [
            (if alive.len() < self.cfg.max_objs { 7 } else { 0 }, 0), // new
            (6, 1),                                                   // clone
            (9, 2),                                                   // drop
            (12, 3),                                                  // store (+adopt)
            (6, 4),                                                   // take (+unadopt)
            (if self.adopts_allowed() && class != Class::Full { 3 } else { 0 }, 5), // adopt an already stored handle
            (if self.adopts_allowed() && class != Class::Full { 2 } else { 0 }, 6), // stray unadopt
            (2 * wb, 7),                                              // downgrade
            (2 * wb, 8),                                              // upgrade
            (wb, 9),                                                  // clone weak
            (wb, 10),                                                 // drop weak
            (wb, 11),                                                 // store weak
            (if wb > 0 { 1 } else { 0 }, 12),                         // take weak
            (if wb > 0 { 1 } else { 0 }, 13),                         // Weak::new
            (cb, 14),                                                 // try_unwrap
            (cb, 15),                                                 // make_mut
            (cb, 16),                                                 // get_mut
            (cb, 17),                                                 // raw round trip
            (cb, 18),                                                 // increment_strong_count
            (cb, 19),                                                 // decrement_strong_count
            (if self.adopts_allowed() { 1 } else { 0 }, 20), // same-handle self adoption (documented no-op)
            (3, 21),                                                  // upgrade + immediate drop (probe)
            (if self.adopts_allowed() { 4 } else { 0 }, 22),         // link 2-4 objects into a fully recorded ring
            (cb, 23),                                                 // make_mut in place on a stored handle
        ];
        let total: u32 = menu.iter().map(|m| m.0).sum();
        let mut r = (self.rng.next() % total as u64) as u32;
        let mut choice = 0u8;
        for (wgt, c) in menu.iter() {
            if r < *wgt {
                choice = *c;
                break;
            }
            r -= *wgt;
        }
        match choice {
            0 => {
                if cb > 0 && self.rng.chance(1, 3) {
                    self.pending.push_back(Op::Shallow(w.objs.len() as ObjId));
                }
                if self.rng.chance(1, 5) {
                    self.pending.push_back(Op::RawRelease(w.objs.len() as ObjId));
                }
                if self.rng.chance(1, 3) {
                    Some(Op::NewVia(1 + self.rng.below(4) as u8))
                } else {
                    Some(Op::New)
                }
            }
            1 => {
                let hs = all_hrefs(w);
                let hs: Vec<_> = hs.into_iter().filter(|(h, _)| matches!(h, HRef::P(_)) || self.is_reachable_owner(w, &reach, h)).collect();
                self.rng.pick(&hs).map(|(h, _)| Op::Clone(*h))
            }
            2 => self.rng.pick(&prog).map(|&s| Op::Drop(s)),
            3 => {
                // store a program handle into an object, recorded or not
                let &s = self.rng.pick(&prog)?;
                let t = w.htarget[s];
                let owners = if self.rng.chance(9, 10) || alive.len() == reachable_alive.len() { &reachable_alive } else { &alive };
                // bias towards closing cycles: prefer an owner that the stored target already
                // reaches through stored handles (so that owner -> target closes a cycle)
                let mut o = *self.rng.pick(owners)?;
                if self.rng.chance(1, 2) && w.objs[t as usize].state == St::Alive {
                    let mut seen = vec![false; w.objs.len()];
                    let mut work = vec![t];
                    seen[t as usize] = true;
                    let mut reach_from_t = vec![];
                    while let Some(x) = work.pop() {
                        reach_from_t.push(x);
                        for &y in &w.objs[x as usize].held {
                            if !seen[y as usize] && w.objs[y as usize].state == St::Alive {
                                seen[y as usize] = true;
                                work.push(y);
                            }
                        }
                    }
                    let cands: Vec<ObjId> = reach_from_t.into_iter().filter(|x| owners.contains(x)).collect();
                    if let Some(&c) = self.rng.pick(&cands) {
                        o = c;
                    }
                }
                let k = w.objs[o as usize].held.len();
                let record = match class {
                    Class::NoAdopt => false,
                    Class::Full => true,
                    _ => self.rng.chance(7, 10),
                };
                if !record {
                    return Some(Op::Store(o, s));
                }
                // a handle to the owner that is not the handle being stored
                let cands: Vec<HRef> = all_hrefs(w).into_iter().filter(|(h, tt)| *tt == o && *h != HRef::P(s)).map(|(h, _)| h).collect();
                let this = match self.rng.pick(&cands) {
                    Some(&h) => h,
                    None => {
                        if class == Class::Full {
                            return None;
                        }
                        return Some(Op::Store(o, s));
                    }
                };
                let _ = t;
                if self.rng.chance(1, 2) {
                    self.pending.push_back(Op::Store(o, s));
                    Some(Op::Adopt(this, HRef::P(s)))
                } else {
                    // `this` may itself be a stored handle of the same owner: indices stay valid
                    // because the new handle is appended
                    self.pending.push_back(Op::Adopt(this, HRef::S(o, k)));
                    Some(Op::Store(o, s))
                }
            }
            4 => {
                let owners: Vec<ObjId> = alive.iter().copied().filter(|&o| !w.objs[o as usize].held.is_empty() && (reach[o as usize] || self.rng.chance(1, 10))).collect();
                let &o = self.rng.pick(&owners)?;
                let k = self.rng.below(w.objs[o as usize].held.len());
                let t = w.objs[o as usize].held[k];
                if t == o && w.objs[o as usize].looprec > 0 && class != Class::Elide {
                    // same-handle records can only be removed through that very handle: do it first
                    let r = HRef::S(o, k);
                    for _ in 1..w.objs[o as usize].looprec {
                        self.pending.push_back(Op::Unadopt(r, r));
                    }
                    return Some(Op::Unadopt(r, r));
                }
                let rec = w.rec_of(o, t);
                let held_after = held_count(w, o, t) - 1;
                let must_unadopt = rec > held_after;
                let elide = class == Class::Elide && self.rng.chance(1, 2);
                let new_slot = w.handles.len();
                let want_unadopt = match class {
                    Class::NoAdopt => false,
                    Class::Full => true,
                    _ => (must_unadopt && !elide) || (rec > 0 && self.rng.chance(1, 3)),
                };
                let drop_after = self.rng.chance(1, 2);
                if want_unadopt {
                    let cands: Vec<HRef> = all_hrefs(w).into_iter().filter(|(h, tt)| *tt == o && *h != HRef::S(o, k)).map(|(h, _)| h).collect();
                    // stored handles of the same owner after index k shift down by one when k is removed
                    match self.rng.pick(&cands) {
                        Some(&this) => {
                            if self.rng.chance(1, 2) {
                                self.pending.push_back(Op::Take(o, k));
                                if drop_after {
                                    self.pending.push_back(Op::Drop(new_slot));
                                }
                                return Some(Op::Unadopt(this, HRef::S(o, k)));
                            } else {
                                let this2 = match this {
                                    HRef::S(oo, kk) if oo == o && kk > k => HRef::S(oo, kk - 1),
                                    x => x,
                                };
                                self.pending.push_back(Op::Unadopt(this2, HRef::P(new_slot)));
                                if drop_after {
                                    self.pending.push_back(Op::Drop(new_slot));
                                }
                                return Some(Op::Take(o, k));
                            }
                        }
                        None => {
                            if must_unadopt && class != Class::Elide {
                                return None; // cannot keep the history well-formed
                            }
                        }
                    }
                } else if must_unadopt && class != Class::Elide {
                    return None;
                }
                if drop_after {
                    self.pending.push_back(Op::Drop(new_slot));
                }
                Some(Op::Take(o, k))
            }
            5 => {
                // adopt a handle that is already stored and not yet recorded
                let mut cands = vec![];
                for &o in &alive {
                    if !reach[o as usize] && !self.rng.chance(1, 10) {
                        continue;
                    }
                    for (k, &t) in w.objs[o as usize].held.iter().enumerate() {
                        if total_rec(w, o, t) < held_count(w, o, t) {
                            cands.push((o, k));
                        }
                    }
                }
                let &(o, k) = self.rng.pick(&cands)?;
                let thiss: Vec<HRef> = all_hrefs(w).into_iter().filter(|(h, tt)| *tt == o && *h != HRef::S(o, k)).map(|(h, _)| h).collect();
                let &this = self.rng.pick(&thiss)?;
                Some(Op::Adopt(this, HRef::S(o, k)))
            }
            6 => {
                // stray unadopt: redundant, unmatched, or removing a real record (edge becomes unrecorded)
                let hs = all_hrefs(w);
                let &(a, _) = self.rng.pick(&hs)?;
                let &(b, _) = self.rng.pick(&hs)?;
                Some(Op::Unadopt(a, b))
            }
            7 => {
                let hs = all_hrefs(w);
                self.rng.pick(&hs).map(|(h, _)| Op::Downgrade(*h))
            }
            8 => {
                let ws = all_wrefs(w);
                self.rng.pick(&ws).map(|(x, _)| Op::Upgrade(*x))
            }
            9 => {
                let ws = all_wrefs(w);
                self.rng.pick(&ws).map(|(x, _)| Op::CloneWeak(*x))
            }
            10 => {
                let ws: Vec<usize> = (0..w.weaks.len()).filter(|&s| w.weaks[s].is_some()).collect();
                self.rng.pick(&ws).map(|&s| Op::DropWeak(s))
            }
            11 => {
                let ws: Vec<usize> = (0..w.weaks.len()).filter(|&s| w.weaks[s].is_some()).collect();
                let &s = self.rng.pick(&ws)?;
                let &o = self.rng.pick(&alive)?;
                Some(Op::StoreWeak(o, s))
            }
            12 => {
                let owners: Vec<ObjId> = alive.iter().copied().filter(|&o| !w.objs[o as usize].wheld.is_empty()).collect();
                let &o = self.rng.pick(&owners)?;
                Some(Op::TakeWeak(o, self.rng.below(w.objs[o as usize].wheld.len())))
            }
            13 => {
                let ws: Vec<usize> = (0..w.weaks.len()).filter(|&s| w.weaks[s].is_some()).collect();
                if self.rng.chance(1, 2) || ws.is_empty() {
                    Some(Op::WeakNew)
                } else {
                    Some(Op::WeakRawRound(ws[self.rng.below(ws.len())]))
                }
            }
            14 => self.rng.pick(&prog).map(|&s| Op::TryUnwrap(s)),
            15 => {
                let &s = self.rng.pick(&prog)?;
                let t = w.htarget[s];
                if w.objs[t as usize].state == St::Alive && w.strong(t) != 1 && self.rng.chance(1, 4) {
                    // the value's Clone fails; half of the time the program tries again
                    self.pending.push_back(Op::MakeMut(s));
                    if self.rng.chance(1, 2) {
                        self.pending.push_back(Op::MakeMut(s));
                    }
                    return Some(Op::CloneBomb(t));
                }
                if w.objs[t as usize].state == St::Alive && w.strong(t) != 1 && self.rng.chance(1, 5) {
                    // the value's Clone releases the program's other handles to it first
                    self.pending.push_back(Op::MakeMut(s));
                    return Some(Op::CloneEvict(t));
                }
                Some(Op::MakeMut(s))
            }
            16 => self.rng.pick(&prog).map(|&s| Op::GetMut(s)),
            17 => self.rng.pick(&prog).map(|&s| Op::RawRound(s)),
            18 => {
                let hs = all_hrefs(w);
                self.rng.pick(&hs).map(|(h, _)| Op::IncStrong(*h))
            }
            19 => self.rng.pick(&prog).map(|&s| Op::DecStrong(s)),
            20 => {
                // same-handle self adoption, only on a stored self-handle (strict well-formedness)
                let mut cands = vec![];
                for &o in &alive {
                    for (k, &t) in w.objs[o as usize].held.iter().enumerate() {
                        if t == o {
                            cands.push(HRef::S(o, k));
                        }
                    }
                }
                // ... or through any program handle (no stored handle at all: still a no-op)
                for &s in &prog {
                    if w.objs[w.htarget[s] as usize].state == St::Alive {
                        cands.push(HRef::P(s));
                    }
                }
                let &r = self.rng.pick(&cands)?;
                Some(Op::Adopt(r, r))
            }
            22 => {
                // ring maker: k distinct reachable objects, each adopting and storing a handle to the next
                if reachable_alive.len() < 2 {
                    return None;
                }
                let mut objs = reachable_alive.clone();
                self.rng.shuffle(&mut objs);
                let k = 2 + self.rng.below(3.min(objs.len() - 1));
                objs.truncate(k);
                let hs = all_hrefs(w);
                let mut slot = w.handles.len();
                let mut ops = vec![];
                for i in 0..k {
                    let a = objs[i];
                    let b = objs[(i + 1) % k];
                    let ha = hs.iter().find(|(h, t)| *t == a && matches!(h, HRef::P(_))).or_else(|| hs.iter().find(|(_, t)| *t == a))?.0;
                    let hb = hs.iter().find(|(_, t)| *t == b)?.0;
                    ops.push(Op::Clone(hb));
                    ops.push(Op::Adopt(ha, HRef::P(slot)));
                    ops.push(Op::Store(a, slot));
                    slot += 1;
                }
                let first = ops.remove(0);
                for o in ops {
                    self.pending.push_back(o);
                }
                Some(first)
            }
            23 => {
                let owners: Vec<ObjId> = alive.iter().copied().filter(|&o| !w.objs[o as usize].held.is_empty() && reach[o as usize]).collect();
                let &o = self.rng.pick(&owners)?;
                let k = self.rng.below(w.objs[o as usize].held.len());
                let t = w.objs[o as usize].held[k];
                if w.objs[t as usize].state != St::Alive {
                    return None;
                }
                let will_clone = w.strong(t) != 1;
                if will_clone && class != Class::Elide && total_rec(w, o, t) > held_count(w, o, t) - 1 {
                    // the stored handle will point to a new object afterwards: its record must go first
                    if t == o && w.objs[o as usize].looprec > 0 {
                        return None;
                    }
                    let cands: Vec<HRef> = all_hrefs(w).into_iter().filter(|(h, tt)| *tt == o && *h != HRef::S(o, k)).map(|(h, _)| h).collect();
                    let &this = self.rng.pick(&cands)?;
                    self.pending.push_back(Op::MakeMutIn(o, k));
                    return Some(Op::Unadopt(this, HRef::S(o, k)));
                }
                if will_clone && self.rng.chance(1, 4) {
                    self.pending.push_back(Op::MakeMutIn(o, k));
                    return Some(Op::CloneBomb(t));
                }
                Some(Op::MakeMutIn(o, k))
            }
            _ => {
                let ws = all_wrefs(w);
                let &(x, t) = self.rng.pick(&ws)?;
                if let Some(t) = t {
                    if w.objs[t as usize].state == St::Alive {
                        self.pending.push_back(Op::Drop(w.handles.len()));
                    }
                }
                Some(Op::Upgrade(x))
            }
        }
    }

    fn is_reachable_owner(&self, _w: &World, reach: &[bool], h: &HRef) -> bool {
        match h {
            HRef::P(_) => true,
            HRef::S(o, _) => reach[*o as usize],
        }
    }
}

// ------------------------------------------------------------------------------------------------
// G-family: structured shapes

pub struct Builder {
    pub ops: Vec<Op>,
    pub next_slot: usize,
    pub next_w: usize,
    pub out_len: Vec<usize>,
    pub n: usize,
}

impl Builder {
    pub fn new(n: usize) -> Builder {
        let mut b = Builder { ops: vec![], next_slot: 0, next_w: 0, out_len: vec![0; n], n };
        for _ in 0..n {
            b.ops.push(Op::New);
            b.next_slot += 1;
        }
        b
    }
    /// object o stores a new handle to t; `rec`: 0 unrecorded, 1 adopt-then-store, 2 store-then-adopt
    pub fn edge(&mut self, o: usize, t: usize, rec: u8) {
        self.ops.push(Op::Clone(HRef::P(t)));
        let s = self.next_slot;
        self.next_slot += 1;
        match rec {
            0 => self.ops.push(Op::Store(o as ObjId, s)),
            1 => {
                self.ops.push(Op::Adopt(HRef::P(o), HRef::P(s)));
                self.ops.push(Op::Store(o as ObjId, s));
            }
            _ => {
                self.ops.push(Op::Store(o as ObjId, s));
                self.ops.push(Op::Adopt(HRef::P(o), HRef::S(o as ObjId, self.out_len[o])));
            }
        }
        self.out_len[o] += 1;
    }
    /// self-handle recorded through the very same handle
    pub fn loopback(&mut self, o: usize) {
        self.ops.push(Op::Clone(HRef::P(o)));
        let s = self.next_slot;
        self.next_slot += 1;
        self.ops.push(Op::Store(o as ObjId, s));
        let r = HRef::S(o as ObjId, self.out_len[o]);
        self.ops.push(Op::Adopt(r, r));
        self.out_len[o] += 1;
    }
    pub fn weak_outside(&mut self, t: usize) {
        self.ops.push(Op::Downgrade(HRef::P(t)));
        self.next_w += 1;
    }
    pub fn weak_inside(&mut self, o: usize, t: usize) {
        self.ops.push(Op::Downgrade(HRef::P(t)));
        self.ops.push(Op::StoreWeak(o as ObjId, self.next_w));
        self.next_w += 1;
    }
}

/// Two members with a large fan-out: S owns H and every leaf L_i (which own S back), H owns every
/// kid K_j, every K_j owns S. All handles recorded. The trace's work list holds dozens of pending
/// entries at once, in an order that depends on the table layout of S and H. Dropped last: S (or H).
pub fn double_hub_ops(idx: u64, seed: u64) -> (Vec<Op>, String) {
    let mut rng = Rng::new(crate::rng::mix(seed ^ 0xD0B1, idx));
    let leaves = 20 + rng.below(45);
    let kids = 20 + rng.below(45);
    let n = 2 + leaves + kids;
    let mut b = Builder::new(n);
    let (s, h) = (0usize, 1usize);
    b.edge(s, h, 1 + rng.below(2) as u8);
    for i in 0..leaves {
        let l = 2 + i;
        b.edge(s, l, 1 + rng.below(2) as u8);
        b.edge(l, s, 1 + rng.below(2) as u8);
    }
    for j in 0..kids {
        let k = 2 + leaves + j;
        b.edge(h, k, 1 + rng.below(2) as u8);
        b.edge(k, s, 1 + rng.below(2) as u8);
    }
    let mut order: Vec<usize> = (0..n).collect();
    for i in (1..order.len()).rev() {
        order.swap(i, rng.below(i + 1));
    }
    let last = if rng.chance(1, 2) { s } else { 2 + rng.below(n - 2) };
    order.retain(|&x| x != last);
    order.push(last);
    let mut ops = b.ops;
    for x in order {
        ops.push(Op::Drop(x));
    }
    (ops, format!("doublehub(leaves {}, kids {}, last {})", leaves, kids, last))
}

pub const FAMILY_KINDS: usize = 9;

/// Structured shapes; `idx` selects kind, size, multiplicities, Weak placement and the drop order
/// (in particular which outside handle is dropped last). Returns (ops, description).
pub fn family_ops(idx: u64, seed: u64, class: Class, max_n: usize) -> (Vec<Op>, String) {
    let mut rng = Rng::new(crate::rng::mix(seed, idx));
    let kind = (idx % FAMILY_KINDS as u64) as usize;
    let full = class == Class::Full;
    let max_n = max_n.max(3);
    // sizes: the per-kind default upper bound, capped by max_n; max_n > 12 stretches rings, lists,
    // stars and chords up to max_n (cliques and multi-edge shapes stay small: they grow quadratically)
    let pick_n = |rng: &mut Rng, lo: usize, hi: usize| {
        let top = if max_n > 12 && hi >= 9 { max_n } else { hi.min(max_n) };
        lo + rng.below(top.max(lo) - lo + 1)
    };
    let mut rec = |rng: &mut Rng| -> u8 {
        if full || rng.chance(17, 20) {
            1 + rng.below(2) as u8
        } else {
            0
        }
    };
    let (mut b, desc) = match kind {
        0 => {
            let n = pick_n(&mut rng, 2, 12);
            let mut b = Builder::new(n);
            for i in 0..n {
                let r = rec(&mut rng);
                b.edge(i, (i + 1) % n, r);
            }
            (b, format!("ring({})", n))
        }
        1 => {
            let n = pick_n(&mut rng, 3, 10);
            let mut b = Builder::new(n);
            for i in 0..n {
                let r = rec(&mut rng);
                b.edge(i, (i + 1) % n, r);
            }
            let chords = 1 + rng.below(n);
            for _ in 0..chords {
                let a = rng.below(n);
                let c = rng.below(n);
                let r = rec(&mut rng);
                b.edge(a, c, r);
            }
            (b, format!("ring({})+{}chords", n, chords))
        }
        2 => {
            let n = pick_n(&mut rng, 2, 6);
            let mut b = Builder::new(n);
            let selfloops = rng.chance(1, 3);
            for i in 0..n {
                for j in 0..n {
                    if i != j || selfloops {
                        let r = rec(&mut rng);
                        b.edge(i, j, r);
                    }
                }
            }
            (b, format!("clique({}{})", n, if selfloops { ",self" } else { "" }))
        }
        3 => {
            let n = pick_n(&mut rng, 2, 10);
            let mut b = Builder::new(n);
            for i in 0..n - 1 {
                let r = rec(&mut rng);
                b.edge(i, i + 1, r);
                let r = rec(&mut rng);
                b.edge(i + 1, i, r);
            }
            (b, format!("dll({})", n))
        }
        4 => {
            let n = pick_n(&mut rng, 3, 9);
            let mut b = Builder::new(n);
            for i in 1..n {
                let r = rec(&mut rng);
                b.edge(0, i, r);
                if rng.chance(3, 4) {
                    let r = rec(&mut rng);
                    b.edge(i, 0, r);
                }
            }
            (b, format!("star({})", n))
        }
        5 => {
            // cycle with acyclic tails, some tails shared by several members
            let k = pick_n(&mut rng, 2, 5);
            let tails = 1 + rng.below(3);
            let n = k + tails;
            let mut b = Builder::new(n);
            for i in 0..k {
                let r = rec(&mut rng);
                b.edge(i, (i + 1) % k, r);
            }
            for t in 0..tails {
                let tail = k + t;
                let owners = 1 + rng.below(k);
                for _ in 0..owners {
                    let o = rng.below(k);
                    let r = rec(&mut rng);
                    b.edge(o, tail, r);
                }
                if t > 0 && rng.chance(1, 2) {
                    let r = rec(&mut rng);
                    b.edge(k + t - 1, tail, r);
                }
            }
            (b, format!("cycle({})+{}tails", k, tails))
        }
        6 => {
            // two or three cycles sharing members
            let a = pick_n(&mut rng, 2, 4);
            let c = pick_n(&mut rng, 2, 4);
            let third = rng.chance(1, 3);
            let n = a + c - 1 + if third { 2 } else { 0 };
            let mut b = Builder::new(n);
            for i in 0..a {
                let r = rec(&mut rng);
                b.edge(i, (i + 1) % a, r);
            }
            // second cycle: 0, a, a+1, ..., a+c-2
            let mut cyc = vec![0usize];
            for i in 0..c - 1 {
                cyc.push(a + i);
            }
            for i in 0..cyc.len() {
                let r = rec(&mut rng);
                b.edge(cyc[i], cyc[(i + 1) % cyc.len()], r);
            }
            if third {
                let x = a + c - 1;
                let cyc3 = [1 % a, x, x + 1];
                for i in 0..3 {
                    let r = rec(&mut rng);
                    b.edge(cyc3[i], cyc3[(i + 1) % 3], r);
                }
            }
            (b, format!("shared-cycles({},{}{})", a, c, if third { ",3" } else { "" }))
        }
        7 => {
            // parallel edges with unequal in/out multiplicity
            let n = pick_n(&mut rng, 2, 6);
            let mut b = Builder::new(n);
            for i in 0..n {
                let m = 1 + rng.below(4);
                for _ in 0..m {
                    let r = rec(&mut rng);
                    b.edge(i, (i + 1) % n, r);
                }
                if rng.chance(1, 3) {
                    let t = rng.below(n);
                    let m = 1 + rng.below(3);
                    for _ in 0..m {
                        let r = rec(&mut rng);
                        b.edge(i, t, r);
                    }
                }
            }
            (b, format!("multiring({})", n))
        }
        _ => {
            // self-adopters mixed into a ring
            let n = pick_n(&mut rng, 2, 8);
            let mut b = Builder::new(n);
            for i in 0..n {
                let r = rec(&mut rng);
                b.edge(i, (i + 1) % n, r);
                match rng.below(4) {
                    0 => {
                        let r = rec(&mut rng);
                        b.edge(i, i, r);
                    }
                    1 if !full => b.loopback(i),
                    _ => {}
                }
            }
            (b, format!("ring({})+self", n))
        }
    };
    let n = b.n;
    // same-handle self-adoptions through the program's own handle (no stored handle; documented
    // no-op, as in the repository's leak_adopt_self_noop test)
    let mut free_loops = 0;
    if class != Class::NoAdopt {
        for i in 0..n {
            if rng.chance(1, 5) {
                for _ in 0..1 + rng.below(2) {
                    b.ops.push(Op::Adopt(HRef::P(i), HRef::P(i)));
                    free_loops += 1;
                }
            }
        }
    }
    // Weak placement
    let wmode = rng.below(4);
    if wmode & 1 != 0 {
        for i in 0..n {
            b.weak_outside(i);
        }
    }
    if wmode & 2 != 0 {
        for i in 0..n {
            b.weak_inside(i, (i + 1) % n);
            if rng.chance(1, 2) {
                b.weak_inside(i, i);
            }
        }
    }
    // drop order: the outside handle `last` is dropped last; optionally some handles are kept
    let last = rng.below(n);
    let mut order: Vec<usize> = (0..n).filter(|&i| i != last).collect();
    rng.shuffle(&mut order);
    let keep = if rng.chance(1, 4) { 1 + rng.below(n.min(3)) } else { 0 };
    if keep > 0 {
        order.truncate(order.len().saturating_sub(keep - 1));
    } else {
        order.push(last);
    }
    for &d in &order {
        b.ops.push(Op::Drop(d));
    }
    let desc = format!("{} weak{} last={} keep={} noop-self-adoptions={}", desc, wmode, last, keep, free_loops);
    (b.ops, desc)
}

// ------------------------------------------------------------------------------------------------
// G-script: destructor scripts layered over small shapes (C10, C11, C16)

#[derive(Clone, Copy, PartialEq, Eq, Debug)]
pub enum ScriptMode {
    Reentrant,
    Panic,
    DeadClone,
    DeadDrop,
    /// destructors create Weak handles from their own stored handles and let them escape (C05)
    WeakEscape,
    /// a destructor lets one of its stored handles escape; it is cloned after the collection (C16)
    DeadCloneLate,
    /// the clone happens while another member's destructor panic is unwinding (C16)
    DeadClonePanic,
    /// the destructor first downgrades the dead peer handle, drops that Weak, then clones (C16)
    DeadCloneAfterWeak,
    /// the destructor copy-assigns (`clone_from`) one dead peer handle from another one (C16)
    DeadCloneFrom,
}

fn split_build_and_drops(ops: Vec<Op>) -> (Vec<Op>, Vec<Op>) {
    let pos = ops.iter().position(|o| matches!(o, Op::Drop(_))).unwrap_or(ops.len());
    let drops = ops[pos..].to_vec();
    let mut build = ops;
    build.truncate(pos);
    (build, drops)
}

/// Base shape for scripted histories: a small enumerated shape or a small structured family.
/// Returns (build ops, drop ops, number of objects, stored-handle counts per object, description).
fn base_shape(rng: &mut Rng, idx: u64, seed: u64, class_full: bool) -> (Vec<Op>, Vec<Op>, usize, String) {
    if rng.chance(1, 2) {
        let n = 2 + rng.below(2);
        let sp = EnumSpace { n, pair_base: if n == 2 { 6 } else { 3 }, full_only: class_full };
        let i = rng.next() % sp.total();
        // only "no Weak" / "inside" placements keep weak slot numbering simple: accept all
        let (ops, desc) = sp.ops(i);
        let (b, d) = split_build_and_drops(ops);
        (b, d, n, format!("enum[{}]", desc))
    } else {
        let (ops, desc) = family_ops(idx.wrapping_mul(31).wrapping_add(rng.next() % 1000), seed, if class_full { Class::Full } else { Class::Wf }, 6);
        let n = ops.iter().take_while(|o| matches!(o, Op::New)).count();
        let (b, d) = split_build_and_drops(ops);
        (b, d, n, format!("family[{}]", desc))
    }
}

/// Number of program strong slots / weak slots created by a static build list.
fn count_slots(ops: &[Op]) -> (usize, usize) {
    let mut h = 0;
    let mut w = 0;
    for o in ops {
        match o {
            Op::New | Op::NewVia(_) | Op::Clone(_) | Op::Take(_, _) | Op::IncStrong(_) => h += 1,
            Op::Downgrade(_) | Op::CloneWeak(_) | Op::WeakNew | Op::TakeWeak(_, _) => w += 1,
            _ => {}
        }
    }
    (h, w)
}

fn stored_targets(ops: &[Op], n_total: usize) -> Vec<Vec<usize>> {
    // replay Store ops symbolically to know what each object holds (target = object of the slot)
    let mut slot_target: Vec<usize> = vec![];
    let mut held: Vec<Vec<usize>> = vec![vec![]; n_total];
    let mut next_obj = 0usize;
    for o in ops {
        match o {
            Op::New => {
                slot_target.push(next_obj);
                next_obj += 1;
            }
            Op::Clone(HRef::P(s)) => {
                let t = slot_target[*s];
                slot_target.push(t);
            }
            Op::Clone(HRef::S(ow, k)) => {
                let t = held[*ow as usize][*k];
                slot_target.push(t);
            }
            Op::Store(ow, s) => {
                let t = slot_target[*s];
                if (*ow as usize) < held.len() {
                    held[*ow as usize].push(t);
                }
            }
            _ => {}
        }
    }
    held
}

pub fn script_ops(idx: u64, seed: u64, mode: ScriptMode) -> (Vec<Op>, String) {
    script_ops_ex(idx, seed, mode, false)
}

/// `elide`: some stored handles of the base shape are taken out and dropped without unadopt
/// before the scripts are attached (stale records; the documentation allows it).
pub fn script_ops_ex(idx: u64, seed: u64, mode: ScriptMode, elide: bool) -> (Vec<Op>, String) {
    let mut rng = Rng::new(crate::rng::mix(seed ^ 0x5C21, idx));
    let full = matches!(mode, ScriptMode::DeadClone | ScriptMode::DeadCloneFrom | ScriptMode::DeadDrop | ScriptMode::DeadCloneLate | ScriptMode::DeadClonePanic | ScriptMode::DeadCloneAfterWeak) || rng.chance(1, 2) || (mode == ScriptMode::WeakEscape && rng.chance(2, 3));
    let (mut build, drops, n, bdesc) = base_shape(&mut rng, idx, seed, full);
    let mut desc = bdesc;
    if elide {
        let held = stored_targets(&build, n);
        let mut taken = 0;
        for o in 0..n {
            let mut len = held[o].len();
            while len > 0 && taken < 3 && rng.chance(1, 3) {
                build.push(Op::Take(o as ObjId, len - 1));
                build.push(Op::Drop(crate::ops::rel(0)));
                len -= 1;
                taken += 1;
            }
        }
        desc = format!("{} elided-takes={}", desc, taken);
    }
    let (mut hslots, mut wslots) = count_slots(&build);
    match mode {
        ScriptMode::Reentrant => {
            // bystanders: Z (id n), ZZ (id n+1); second group G = {n+2, n+3} ring, one outside handle left
            let z = n as ObjId;
            let zz = n as ObjId + 1;
            let g0 = n as ObjId + 2;
            let g1 = n as ObjId + 3;
            build.push(Op::New); // Z
            let pz = hslots;
            build.push(Op::New); // ZZ
            let pzz = hslots + 1;
            build.push(Op::New); // g0
            let pg0 = hslots + 2;
            build.push(Op::New); // g1
            let pg1 = hslots + 3;
            hslots += 4;
            // ring g0 <-> g1, fully recorded
            build.push(Op::Clone(HRef::P(pg1)));
            build.push(Op::Adopt(HRef::P(pg0), HRef::P(hslots)));
            build.push(Op::Store(g0, hslots));
            hslots += 1;
            build.push(Op::Clone(HRef::P(pg0)));
            build.push(Op::Adopt(HRef::P(pg1), HRef::P(hslots)));
            build.push(Op::Store(g1, hslots));
            hslots += 1;
            build.push(Op::Drop(pg1));
            if rng.chance(1, 2) {
                build.push(Op::Shallow(g0));
            }
            // Z holds an adopted handle to ZZ, and a second program handle to Z exists
            build.push(Op::Clone(HRef::P(pzz)));
            build.push(Op::Adopt(HRef::P(pz), HRef::P(hslots)));
            build.push(Op::Store(z, hslots));
            hslots += 1;
            build.push(Op::Clone(HRef::P(pz)));
            let pz2 = hslots;
            hslots += 1;
            // weak handles: to Z, to g0, and to every object of the base shape (dying peers)
            build.push(Op::Downgrade(HRef::P(pz)));
            let wz = wslots;
            build.push(Op::Downgrade(HRef::P(pg0)));
            let wg = wslots + 1;
            wslots += 2;
            let mut wpeer = vec![];
            for i in 0..n {
                build.push(Op::Downgrade(HRef::P(i)));
                wpeer.push(wslots);
                wslots += 1;
            }
            let _ = (zz, g1, hslots);
            // scripts on every object of the base shape
            let mut nact = 0;
            for a in 0..n {
                let k = rng.below(3);
                for _ in 0..k {
                    let when = if rng.chance(1, 2) { When::Pre } else { When::Post };
                    let acts: Vec<Op> = match rng.below(15) {
                        // copy-on-write through the last outside handle of the other group: the old
                        // handle is given up inside make_mut (nested collection when g0 clones shallowly)
                        14 => vec![Op::MakeMut(pg0)],
                        0 => vec![Op::New, Op::Store(z, crate::ops::rel(0))],
                        1 => vec![Op::Clone(HRef::P(pz))],
                        2 => vec![Op::Drop(pg0)], // last outside handle of the other group: nested collection
                        3 => vec![Op::Drop(pz2)],
                        4 => vec![Op::Clone(HRef::P(pzz)), Op::Adopt(HRef::P(pz), HRef::P(crate::ops::rel(0))), Op::Store(z, crate::ops::rel(0))],
                        5 => vec![Op::Unadopt(HRef::P(pz), HRef::S(z, 0))],
                        6 => vec![Op::Downgrade(HRef::P(pz))],
                        7 => vec![Op::Upgrade(WRef::P(wz))],
                        8 => vec![Op::Upgrade(WRef::P(wpeer[rng.below(n)]))], // dying peer (or survivor)
                        9 => vec![Op::Upgrade(WRef::P(wg)), Op::Drop(crate::ops::rel(0))],
                        10 => vec![Op::Unadopt(HRef::P(pz), HRef::S(z, 0)), Op::Take(z, 0), Op::Drop(crate::ops::rel(0))],
                        11 => vec![Op::Clone(HRef::P(rng.below(n)))], // a handle the program may still hold to a base object
                        12 => vec![Op::New, Op::Adopt(HRef::P(pz), HRef::P(crate::ops::rel(0))), Op::Store(z, crate::ops::rel(0)), Op::Clone(HRef::P(pz)), Op::Adopt(HRef::P(pzz), HRef::P(crate::ops::rel(0))), Op::Store(zz, crate::ops::rel(0))],
                        _ => vec![Op::Adopt(HRef::P(pz), HRef::P(pz2)), Op::Unadopt(HRef::P(pz), HRef::P(pz2))],
                    };
                    for act in acts {
                        build.push(Op::Script(a as ObjId, when, Box::new(act)));
                        nact += 1;
                    }
                    build.push(Op::Script(a as ObjId, when, Box::new(Op::Nop)));
                }
            }
            desc = format!("reentrant {} scripts={}", desc, nact);
        }
        ScriptMode::Panic => {
            let a = rng.below(n);
            let when = if rng.chance(1, 2) { When::Pre } else { When::Post };
            // Weak handles to every object, kept by the program, to observe "dead" afterwards
            for i in 0..n {
                build.push(Op::Downgrade(HRef::P(i)));
            }
            build.push(Op::Script(a as ObjId, when, Box::new(Op::Panic)));
            desc = format!("panic in #{} {:?} {}", a, when, desc);
        }
        ScriptMode::WeakEscape => {
            let held = stored_targets(&build, n);
            let mut nact = 0;
            for a in 0..n {
                for k in 0..held[a].len() {
                    if rng.chance(1, 2) {
                        let when = if rng.chance(1, 2) { When::Pre } else { When::Post };
                        build.push(Op::Script(a as ObjId, when, Box::new(Op::DowngradeOwn(k))));
                        nact += 1;
                    }
                }
            }
            desc = format!("weak-escape {} actions={}", desc, nact);
        }
        ScriptMode::DeadCloneLate => {
            let held = stored_targets(&build, n);
            // a Weak to every object keeps the allocations in existence after the collection
            for i in 0..n {
                build.push(Op::Downgrade(HRef::P(i)));
            }
            let cands: Vec<usize> = (0..n).filter(|&i| !held[i].is_empty()).collect();
            if let Some(&a) = rng.pick(&cands) {
                let k = rng.below(held[a].len());
                build.push(Op::Script(a as ObjId, When::Pre, Box::new(Op::EscapeOwn(k))));
                desc = format!("DeadCloneLate: #{} lets stored handle {} (-> #{}) escape {}", a, k, held[a][k], desc);
            }
        }
        ScriptMode::DeadClonePanic | ScriptMode::DeadCloneAfterWeak => {
            let held = stored_targets(&build, n);
            let cands: Vec<usize> = (0..n).filter(|&i| !held[i].is_empty()).collect();
            if let Some(&a) = rng.pick(&cands) {
                let k = rng.below(held[a].len());
                if mode == ScriptMode::DeadClonePanic {
                    // whichever other member is destroyed first panics (the action is valid once);
                    // the acting member then runs while that panic unwinds
                    for i in 0..n {
                        if i != a {
                            build.push(Op::Script(i as ObjId, When::Pre, Box::new(Op::Panic)));
                        }
                    }
                    build.push(Op::Script(a as ObjId, When::Pre, Box::new(Op::CloneDead(k))));
                } else {
                    build.push(Op::Script(a as ObjId, When::Pre, Box::new(Op::DowngradeOwn(k))));
                    build.push(Op::Script(a as ObjId, When::Pre, Box::new(Op::DropWeak(crate::ops::rel(0)))));
                    build.push(Op::Script(a as ObjId, When::Pre, Box::new(Op::CloneDead(k))));
                }
                desc = format!("{:?} by #{} on stored handle {} (-> #{}) {}", mode, a, k, held[a][k], desc);
            }
        }
        ScriptMode::DeadCloneFrom => {
            let held = stored_targets(&build, n);
            let cands: Vec<usize> = (0..n).filter(|&i| !held[i].is_empty()).collect();
            if let Some(&a) = rng.pick(&cands) {
                let k = rng.below(held[a].len());
                // usually give the acting member a second recorded handle to the same target
                let twice = rng.chance(3, 4);
                if twice {
                    build.push(Op::Clone(HRef::S(a as ObjId, k)));
                    build.push(Op::Adopt(HRef::P(a), HRef::P(crate::ops::rel(0))));
                    build.push(Op::Store(a as ObjId, crate::ops::rel(0)));
                }
                build.push(Op::Script(a as ObjId, When::Pre, Box::new(Op::CloneFromDead(k))));
                desc = format!("DeadCloneFrom by #{} on stored handle {} (-> #{}, second handle {}) {}", a, k, held[a][k], twice, desc);
            }
        }
        ScriptMode::DeadClone | ScriptMode::DeadDrop => {
            let held = stored_targets(&build, n);
            // choose an acting object that stores at least one handle
            let cands: Vec<usize> = (0..n).filter(|&i| !held[i].is_empty()).collect();
            if let Some(&a) = rng.pick(&cands) {
                let k = rng.below(held[a].len());
                let act = if mode == ScriptMode::DeadClone { Op::CloneDead(k) } else { Op::DropDead(k) };
                let when = When::Pre;
                build.push(Op::Script(a as ObjId, when, Box::new(act)));
                desc = format!("{:?} by #{} on stored handle {} (-> #{}) {}", mode, a, k, held[a][k], desc);
            } else {
                desc = format!("{:?} (no stored handle) {}", mode, desc);
            }
        }
    }
    if mode == ScriptMode::Panic {
        // the operation that gives up a handle is not always a plain drop
        for d in drops {
            match (&d, rng.below(8)) {
                (Op::Drop(slot), 0) | (Op::Drop(slot), 1) if *slot < n => {
                    build.push(Op::Shallow(*slot as ObjId));
                    build.push(Op::MakeMut(*slot));
                    build.push(Op::Drop(*slot));
                }
                (Op::Drop(slot), 2) => build.push(Op::DecStrong(*slot)),
                _ => build.push(d),
            }
        }
        return (build, desc);
    }
    build.extend(drops);
    if mode == ScriptMode::DeadCloneLate {
        build.push(Op::CloneLate(crate::ops::rel(0)));
    }
    (build, desc)
}


/// Give up handles through other entry points than a plain drop (same meaning, other code path):
/// every fourth drop goes through into_raw + decrement_strong_count, and some objects release
/// their stored handles that way inside their destructor.
pub fn with_drop_variants(ops: Vec<Op>, seed: u64) -> Vec<Op> {
    let mut rng = Rng::new(seed ^ 0xD409);
    let n_objs = ops.iter().take_while(|o| matches!(o, Op::New)).count();
    let mut out = Vec::with_capacity(ops.len() + n_objs);
    let mut marked = false;
    for op in ops {
        if !marked && !matches!(op, Op::New) {
            marked = true;
            for i in 0..n_objs {
                if rng.chance(1, 4) {
                    out.push(Op::RawRelease(i as ObjId));
                }
            }
        }
        match op {
            Op::Drop(s) if rng.chance(1, 4) => out.push(Op::DecStrong(s)),
            other => out.push(other),
        }
    }
    out
}
