//! Minimal JSON writer.

pub fn esc(s: &str) -> String {
    let mut o = String::with_capacity(s.len() + 2);
    o.push('"');
    for c in s.chars() {
        match c {
            '"' => o.push_str("\\\""),
            '\\' => o.push_str("\\\\"),
            '\n' => o.push_str("\\n"),
            '\r' => o.push_str("\\r"),
            '\t' => o.push_str("\\t"),
            c if (c as u32) < 0x20 => o.push_str(&format!("\\u{:04x}", c as u32)),
            c => o.push(c),
        }
    }
    o.push('"');
    o
}

pub struct Obj {
    s: String,
    first: bool,
}

impl Obj {
    pub fn new() -> Obj {
        Obj { s: String::from("{"), first: true }
    }
    fn key(&mut self, k: &str) {
        if !self.first {
            self.s.push(',');
        }
        self.first = false;
        self.s.push_str(&esc(k));
        self.s.push(':');
    }
    pub fn str(mut self, k: &str, v: &str) -> Obj {
        self.key(k);
        self.s.push_str(&esc(v));
        self
    }
    pub fn num(mut self, k: &str, v: u64) -> Obj {
        self.key(k);
        self.s.push_str(&v.to_string());
        self
    }
    pub fn boolean(mut self, k: &str, v: bool) -> Obj {
        self.key(k);
        self.s.push_str(if v { "true" } else { "false" });
        self
    }
    pub fn raw(mut self, k: &str, v: &str) -> Obj {
        self.key(k);
        self.s.push_str(v);
        self
    }
    pub fn strs(mut self, k: &str, v: &[String]) -> Obj {
        self.key(k);
        self.s.push('[');
        for (i, x) in v.iter().enumerate() {
            if i > 0 {
                self.s.push(',');
            }
            self.s.push_str(&esc(x));
        }
        self.s.push(']');
        self
    }
    pub fn nums(mut self, k: &str, v: &[u64]) -> Obj {
        self.key(k);
        self.s.push('[');
        for (i, x) in v.iter().enumerate() {
            if i > 0 {
                self.s.push(',');
            }
            self.s.push_str(&x.to_string());
        }
        self.s.push(']');
        self
    }
    pub fn end(mut self) -> String {
        self.s.push('}');
        self.s
    }
}
