//! vh: verification harness worker for artichoke/cactusref (see /verif/DESIGN.md).
#![allow(clippy::all)]
#![allow(dead_code)]

mod alloc;
mod diff;
mod exec;
mod gen;
mod json;
mod node;
mod nodrop;
mod ops;
mod rng;
mod run;
mod scale;
mod world;

use std::collections::{HashMap, HashSet};
use std::io::Write;

use crate::gen::{EnumSpace, RandCfg, RandGen};
use crate::ops::{ops_to_string, Op};
use crate::rng::mix;
use crate::run::{HistCfg, HistResult, Paths};
use crate::world::{Class, Stats, World};

#[cfg(feature = "monalloc")]
#[global_allocator]
static GLOBAL: alloc::MonAlloc = alloc::MonAlloc;

pub struct Args {
    m: HashMap<String, String>,
    pub pos: Vec<String>,
}

impl Args {
    fn parse(v: &[String]) -> Args {
        let mut m = HashMap::new();
        let mut pos = vec![];
        let mut i = 0;
        while i < v.len() {
            if let Some(k) = v[i].strip_prefix("--") {
                if i + 1 < v.len() && !v[i + 1].starts_with("--") {
                    m.insert(k.to_string(), v[i + 1].clone());
                    i += 2;
                } else {
                    m.insert(k.to_string(), "1".to_string());
                    i += 1;
                }
            } else {
                pos.push(v[i].clone());
                i += 1;
            }
        }
        Args { m, pos }
    }
    pub fn get(&self, k: &str) -> Option<&str> {
        self.m.get(k).map(|s| s.as_str())
    }
    pub fn u64(&self, k: &str, d: u64) -> u64 {
        self.get(k).and_then(|s| s.parse().ok()).unwrap_or(d)
    }
    pub fn flag(&self, k: &str) -> bool {
        self.m.contains_key(k)
    }
}

fn install_panic_hook() {
    std::panic::set_hook(Box::new(|info| {
        // the hook is the program's code even when the panic starts inside a library call
        // (a failing Clone inside make_mut): what it allocates is not the library's
        let prev = alloc::enter_user();
        let loc = info.location().map(|l| format!("{}:{}", l.file(), l.line())).unwrap_or_default();
        if std::env::var_os("VH_DEBUG").is_some() {
            eprintln!("PANIC {}", info);
        }
        let _ = world::try_with(|w| {
            w.last_panic_msg = Some(loc);
        });
        alloc::restore(prev);
    }));
}

struct Progress {
    file: Option<std::fs::File>,
}
impl Progress {
    fn new(path: Option<&str>) -> Progress {
        Progress { file: path.and_then(|p| std::fs::OpenOptions::new().create(true).write(true).truncate(true).open(p).ok()) }
    }
    fn set(&mut self, idx: u64) {
        if let Some(f) = &mut self.file {
            use std::os::unix::fs::FileExt;
            let s = format!("{:020}\n", idx);
            let _ = f.write_at(s.as_bytes(), 0);
        }
    }
}

fn nontrivial(prop: &str, r: &HistResult) -> bool {
    let s = &r.stats;
    match prop {
        "C01" => s.deref_after_destroy_obs > 0,
        "C02" => s.begins > 0 && (s.dead_handle_drops > 0 || r.paths.group > 0 || r.paths.with_adoptions > 0),
        "C03" => s.required_groups > 0 && (r.paths.group > 0 || r.paths.with_adoptions > 0 || s.required_group_members > 1),
        "C04" => r.all_dead && s.mem_obs > 0 && s.begins > 0,
        "C05" => (s.weak_obs + s.wprobes) > 0 && s.begins > 0,
        "C06" => s.count_obs > 0 && s.begins > 0,
        "C08" => s.links_entries > 0,
        "C09" => r.tables_multi > 0 && s.begins > 0 && r.distinct_orders_max >= 2,
        "C10" => s.script_actions > 0,
        "C11" => s.panics_scripted > 0,
        "C12" => s.consume_ok > 0 && s.links_entries > 0,
        "C13" => s.elide_takes > 0,
        "C14" => s.c14_obs > 0,
        "C16" => s.dead_drops > 0 || s.dead_clones_attempted > 0,
        "C07" => s.begins > 0,
        _ => s.ops > 0,
    }
}

pub struct Agg {
    pub histories: u64,
    pub nontrivial: u64,
    pub distinct: HashSet<u64>,
    pub stats: Stats,
    pub paths: Paths,
    pub violations: u64,
    pub viol_by_prop: HashMap<String, u64>,
    pub known: u64,
    pub inconclusive: u64,
    pub inconclusive_reasons: HashMap<String, u64>,
    pub samples: Vec<String>,
    pub all_dead: u64,
    pub objects: u64,
    pub alloc_modes: [u64; 3],
    pub multi_order_tables: u64,
    pub aborted_histories: u64,
    pub extra: std::collections::BTreeMap<String, u64>,
}

impl Agg {
    fn new() -> Agg {
        Agg {
            histories: 0,
            nontrivial: 0,
            distinct: HashSet::new(),
            stats: Stats::default(),
            paths: Paths::default(),
            violations: 0,
            viol_by_prop: HashMap::new(),
            known: 0,
            inconclusive: 0,
            inconclusive_reasons: HashMap::new(),
            samples: vec![],
            all_dead: 0,
            objects: 0,
            alloc_modes: [0; 3],
            multi_order_tables: 0,
            aborted_histories: 0,
            extra: Default::default(),
        }
    }
}

pub struct Cur {
    pub prop: String,
    pub idx: u64,
    pub next_idx: u64,
    pub coord: String,
    pub class: Class,
    pub alloc_mode: u8,
    pub layout_seed: u64,
}

thread_local! {
    static AGG: std::cell::RefCell<Agg> = std::cell::RefCell::new(Agg::new());
    static CUR: std::cell::RefCell<Option<Cur>> = std::cell::RefCell::new(None);
}

fn emit(line: &str) {
    let out = std::io::stdout();
    let mut o = out.lock();
    let _ = o.write_all(line.as_bytes());
    let _ = o.write_all(b"\n");
    let _ = o.flush();
}

/// Called by the monitor at the first hard violation of a history when running as a worker:
/// report it together with everything aggregated so far, then leave the process before the
/// damaged state can spread into later histories.
pub fn hard_exit(w: &World) -> ! {
    let opstr = ops_to_string(&w.ops_applied);
    let log = w.fmt_log();
    CUR.with(|c| {
        let c = c.borrow();
        let c = c.as_ref().expect("hard_exit without current history");
        for v in &w.violations {
            emit(&format!("V {}", violation_json(v, c.idx, &c.coord, c.class, c.alloc_mode, c.layout_seed, &opstr, &log)));
        }
        AGG.with(|a| {
            if let Ok(mut a) = a.try_borrow_mut() {
                a.histories += 1;
                a.aborted_histories += 1;
                a.stats.add(&w.stats);
                a.violations += w.violations.len() as u64;
                for v in &w.violations {
                    *a.viol_by_prop.entry(v.prop.to_string()).or_insert(0) += 1;
                    if v.known_sig.is_some() {
                        a.known += 1;
                    }
                }
                emit(&format!("S {}", summary(&c.prop, &a)));
            }
        });
        emit(&format!("R {}", json::Obj::new().num("resume_from", c.next_idx).end()));
    });
    std::process::exit(3);
}

fn violation_json(v: &world::Violation, idx: u64, coord: &str, class: Class, alloc_mode: u8, layout_seed: u64, opstr: &str, log: &[String]) -> String {
    json::Obj::new()
        .str("kind", "violation")
        .str("prop", v.prop)
        .str("rule", v.rule)
        .boolean("hard", v.hard)
        .str("msg", &v.msg)
        .num("idx", idx)
        .str("coord", coord)
        .str("class", class.name())
        .num("alloc_mode", alloc_mode as u64)
        .num("layout_seed", layout_seed)
        .num("op_idx", v.op_idx as u64)
        .str("known_sig", v.known_sig.as_deref().unwrap_or(""))
        .str("ops", opstr)
        .strs("log", log)
        .end()
}

fn hash_str(s: &str) -> u64 {
    let mut h = 0xcbf2_9ce4_8422_2325u64;
    for b in s.bytes() {
        h ^= b as u64;
        h = h.wrapping_mul(0x0100_0000_01b3);
    }
    h
}

fn report(prop: &str, agg: &mut Agg, idx: u64, coord: &str, cfg: &HistCfg, r: &HistResult) {
    agg.histories += 1;
    agg.stats.add(&r.stats);
    agg.paths.add(&r.paths);
    agg.objects += r.objects as u64;
    if r.all_dead {
        agg.all_dead += 1;
    }
    agg.alloc_modes[cfg.alloc_mode as usize % 3] += 1;
    if r.distinct_orders_max > 1 {
        agg.multi_order_tables += 1;
    }
    let need_str = !cfg.light || !r.violations.is_empty() || r.inconclusive.is_some() || agg.samples.len() < 3;
    let opstr = if need_str { ops_to_string(&r.ops) } else { String::new() };
    if nontrivial(prop, r) {
        agg.nontrivial += 1;
        agg.distinct.insert(if r.ops.is_empty() || !need_str { hash_str(coord) } else { hash_str(&opstr) });
        if agg.samples.len() < 3 {
            let extra = DIFF_SAMPLE.with(|d| d.borrow().get(agg.samples.len()).cloned().unwrap_or_default());
            agg.samples.push(format!("{} :: {}{}", coord, opstr, extra));
        }
    }
    if let Some(why) = &r.inconclusive {
        agg.inconclusive += 1;
        let key: String = why.chars().take(60).collect();
        *agg.inconclusive_reasons.entry(key).or_insert(0) += 1;
        let line = json::Obj::new()
            .str("kind", "inconclusive")
            .num("idx", idx)
            .str("coord", coord)
            .str("why", why)
            .str("ops", &opstr)
            .end();
        emit(&format!("I {}", line));
    }
    for v in &r.violations {
        agg.violations += 1;
        *agg.viol_by_prop.entry(v.prop.to_string()).or_insert(0) += 1;
        if v.known_sig.is_some() {
            agg.known += 1;
        }
        emit(&format!("V {}", violation_json(v, idx, coord, cfg.class, cfg.alloc_mode, cfg.layout_seed, &opstr, &r.log)));
    }
}

fn summary(prop: &str, agg: &Agg) -> String {
    let mut st = json::Obj::new();
    for (k, v) in agg.stats.fields() {
        st = st.num(k, v);
    }
    st = st.nums("group_hist", &agg.stats.group_hist);
    let p = &agg.paths;
    let paths = json::Obj::new()
        .num("traces", p.traces)
        .num("pops", p.pops)
        .num("expansions", p.expansions)
        .num("entries", p.entries)
        .num("dead_handle", p.dead_handle)
        .num("plain", p.plain)
        .num("with_adoptions", p.with_adoptions)
        .num("group", p.group)
        .num("group_members", p.group_members)
        .end();
    let mut vb = json::Obj::new();
    for (k, v) in &agg.viol_by_prop {
        vb = vb.num(k, *v);
    }
    let mut ir = json::Obj::new();
    for (k, v) in &agg.inconclusive_reasons {
        ir = ir.num(k, *v);
    }
    json::Obj::new()
        .str("prop", prop)
        .num("histories", agg.histories)
        .num("nontrivial", agg.nontrivial)
        .num("distinct_nontrivial", agg.distinct.len() as u64)
        .num("violations", agg.violations)
        .raw("viol_by_prop", &vb.end())
        .num("known", agg.known)
        .num("inconclusive", agg.inconclusive)
        .raw("inconclusive_reasons", &ir.end())
        .num("all_dead", agg.all_dead)
        .num("objects", agg.objects)
        .nums("alloc_modes", &agg.alloc_modes)
        .num("multi_order_tables", agg.multi_order_tables)
        .num("aborted_histories", agg.aborted_histories)
        .raw("extra", &{
            let mut e = json::Obj::new();
            for (k, v) in &agg.extra {
                e = e.num(k, *v);
            }
            e.end()
        })
        .raw("stats", &st.end())
        .raw("paths", &paths)
        .strs("samples", &agg.samples)
        .boolean("monalloc", alloc::ENABLED)
        .end()
}

fn alloc_mode_for(a: &Args, idx: u64) -> u8 {
    match a.get("alloc").unwrap_or("auto") {
        "plain" => alloc::MODE_PLAIN,
        "quar" => alloc::MODE_QUARANTINE,
        "scatter" => alloc::MODE_SCATTER,
        _ => (mix(idx, 77) % 3) as u8,
    }
}

fn cmd_run(a: &Args) -> i32 {
    install_panic_hook();
    let prop = a.get("prop").unwrap_or("C00").to_string();
    let gen = a.get("gen").unwrap_or("enum").to_string();
    let class = Class::parse(a.get("class").unwrap_or("WF")).expect("bad class");
    let seed = a.u64("seed", 1);
    let from = a.u64("from", 0);
    let stride = a.u64("stride", 1);
    let offset = a.u64("offset", 0);
    let sample_mod = a.u64("sample-mod", 1);
    let only = a.get("only").and_then(|s| s.parse::<u64>().ok());
    let max_viol = a.u64("max-viol", 20);
    let value_offset = run::measure_value_offset();
    let mut progress = Progress::new(a.get("progress"));
    let deadline = a.get("time-limit").and_then(|s| s.parse::<f64>().ok()).map(|s| std::time::Instant::now() + std::time::Duration::from_secs_f64(s));

    let space = if gen == "enum" {
        Some(EnumSpace { n: a.u64("n", 2) as usize, pair_base: if a.u64("mult", 1) >= 2 { 6 } else { 3 }, full_only: a.flag("full-only") })
    } else {
        None
    };
    let to = match &space {
        Some(sp) => a.u64("to", sp.total()).min(sp.total()),
        None => a.u64("to", 1000),
    };
    let mut idx = from + offset;
    let mut exhausted = true;
    while idx < to {
        let this = idx;
        idx += stride;
        if let Some(o) = only {
            if this != o {
                continue;
            }
        }
        if sample_mod > 1 && mix(this, seed) % sample_mod != 0 {
            continue;
        }
        if let Some(d) = deadline {
            if (a.flag("light") || AGG.with(|a| a.borrow().histories) % 64 == 0) && std::time::Instant::now() > d {
                exhausted = false;
                break;
            }
        }
        progress.set(this);
        let cfg = HistCfg {
            class,
            alloc_mode: alloc_mode_for(a, this),
            layout_seed: mix(this, seed ^ 0xA110C),
            teardown: !a.flag("no-teardown"),
            check_links: !a.flag("no-links"),
            check_mem: !a.flag("no-mem"),
            value_offset,
            hard_exit: !a.flag("continue-after-hard"),
            light: a.flag("light"),
            sweep_every: a.u64("sweep-every", 1) as usize,
            allow_stale: a.flag("allow-stale"),
        };
        let coord_pre = match &space {
            Some(sp) => format!("enum n={} base={} full={} idx={}", sp.n, sp.pair_base, sp.full_only, this),
            None => format!("{} class={} seed={} idx={}", gen, class.name(), seed, this),
        };
        CUR.with(|c| {
            *c.borrow_mut() = Some(Cur { prop: prop.clone(), idx: this, next_idx: idx, coord: coord_pre, class, alloc_mode: cfg.alloc_mode, layout_seed: cfg.layout_seed });
        });
        let (res, coord) = match &space {
            Some(sp) => {
                let (ops, desc) = sp.ops(this);
                let ops = if a.flag("drop-variants") { gen::with_drop_variants(ops, mix(seed, this)) } else { ops };
                let mut it = ops.into_iter();
                let mut g = |_: &World| it.next();
                let r = run::run_history(&cfg, &mut g, 10_000);
                (r, format!("enum n={} base={} full={} idx={} [{}]", sp.n, sp.pair_base, sp.full_only, this, desc))
            }
            None if gen == "script" || gen == "panic" || gen == "weakescape" => {
                let mode = if gen == "script" { gen::ScriptMode::Reentrant } else if gen == "panic" { gen::ScriptMode::Panic } else { gen::ScriptMode::WeakEscape };
                let (ops, desc) = gen::script_ops_ex(this, seed, mode, a.flag("elide-base"));
                let mut it = ops.into_iter();
                // after the scripted part, a few random operations on the survivors
                let tail = if gen == "panic" { 10 + (mix(this, 5) % 10) as usize } else { 6 };
                let mut rg = RandGen::new(RandCfg { class: Class::Wf, max_objs: 8, len: tail, weak_bias: 1, consume_bias: 0 }, mix(seed, this));
                let mut g = |w: &World| match it.next() {
                    Some(o) => Some(o),
                    None => rg.next(w),
                };
                let r = run::run_history(&cfg, &mut g, 100_000);
                (r, format!("{} class={} seed={} idx={} [{}]", gen, class.name(), seed, this, desc))
            }
            None if gen == "layout" => {
                // C09: the same call sequence under K heap layouts
                let k = a.u64("layouts", 8) as usize;
                let src = this % 6;
                let mut cfg0 = cfg.clone();
                cfg0.class = Class::Full;
                cfg0.alloc_mode = alloc::MODE_SCATTER;
                cfg0.hard_exit = false;
                let (first, srcdesc) = match src {
                    0 if (this / 6) % 24 == 5 => {
                        // wide groups: dozens of work-list entries pending at once, in layout order
                        let (ops, desc) = gen::double_hub_ops(this / 6, seed);
                        let mut it = ops.into_iter();
                        let mut g = |_: &World| it.next();
                        (run::run_history(&cfg0, &mut g, 100_000), format!("family[{}]", desc))
                    }
                    0 => {
                        let (ops, desc) = gen::family_ops(this / 6, seed, Class::Full, 10);
                        let mut it = ops.into_iter();
                        let mut g = |_: &World| it.next();
                        (run::run_history(&cfg0, &mut g, 100_000), format!("family[{}]", desc))
                    }
                    1 => {
                        let hseed = mix(seed, this);
                        let rc = RandCfg { class: Class::Full, max_objs: 2 + (mix(hseed, 2) % 5) as usize, len: 15 + (mix(hseed, 1) % 60) as usize, weak_bias: 1, consume_bias: 0 };
                        let mut rg = RandGen::new(rc, hseed);
                        let mut g = |w: &World| rg.next(w);
                        (run::run_history(&cfg0, &mut g, 10_000), format!("rand FULL hseed={}", hseed))
                    }
                    5 => {
                        // handle-consuming calls on linked objects (try_unwrap, make_mut in all branches
                        // and in place, raw round trips, increment/decrement_strong_count)
                        cfg0.class = Class::Consume;
                        let hseed = mix(seed ^ 0xC025, this);
                        let rc = RandCfg { class: Class::Consume, max_objs: 2 + (mix(hseed, 2) % 5) as usize, len: 15 + (mix(hseed, 1) % 50) as usize, weak_bias: 1, consume_bias: 3 };
                        let mut rg = RandGen::new(rc, hseed);
                        let mut g = |w: &World| rg.next(w);
                        (run::run_history(&cfg0, &mut g, 10_000), format!("rand CONSUME hseed={}", hseed))
                    }
                    4 => {
                        // forgotten unadopts: records are a superset of the stored handles, still
                        // "every stored handle is recorded"; histories that hit the known C13 finding
                        // are skipped below
                        cfg0.class = Class::Elide;
                        // the known C13 finding damages the heap if the operation is allowed to go on:
                        // leave the process at the destructor start (the driver resumes after it)
                        cfg0.hard_exit = true;
                        let hseed = mix(seed ^ 0xE11D, this);
                        let rc = RandCfg { class: Class::Elide, max_objs: 2 + (mix(hseed, 2) % 4) as usize, len: 15 + (mix(hseed, 1) % 40) as usize, weak_bias: 1, consume_bias: 0 };
                        let mut rg = RandGen::new(rc, hseed);
                        let mut g = |w: &World| rg.next(w);
                        (run::run_history(&cfg0, &mut g, 10_000), format!("rand ELIDE hseed={}", hseed))
                    }
                    3 => {
                        // one scripted destructor panic: what is destroyed by the interrupted
                        // operation must not depend on the layout either
                        cfg0.class = Class::Panic;
                        let (ops, desc) = gen::script_ops(this / 6, seed, gen::ScriptMode::Panic);
                        let mut it = ops.into_iter();
                        let mut g = |_: &World| it.next();
                        (run::run_history(&cfg0, &mut g, 100_000), format!("panic[{}]", desc))
                    }
                    _ => {
                        let sp = EnumSpace { n: 3, pair_base: 6, full_only: true };
                        let i = mix(seed, this) % sp.total();
                        let (ops, desc) = sp.ops(i);
                        let mut it = ops.into_iter();
                        let mut g = |_: &World| it.next();
                        (run::run_history(&cfg0, &mut g, 10_000), format!("enum-full[{}]", desc))
                    }
                };
                cfg0.hard_exit = false;
                let mut first = first;
                let mut skipped = false;
                if src == 4 && first.violations.iter().any(|v| v.known_sig.is_some()) {
                    skipped = true;
                    // the known finding fired in the reference run: nothing to compare
                    first.violations.clear();
                    first.inconclusive = None;
                    first.ops.clear();
                    first.stats = Stats::default();
                    AGG.with(|ag| *ag.borrow_mut().extra.entry("elide_histories_skipped_known_finding".into()).or_insert(0) += 1);
                }
                let ops0 = first.ops.clone();
                let mut res = first;
                let mut layouts: HashSet<u64> = HashSet::new();
                layouts.insert(res.layout_digest);
                let mut runs = 1u64;
                // rules of other properties may have fired softly in the reference run (reported by
                // their own checks); the layouts are still compared
                if !skipped && !res.violations.iter().any(|v| v.hard) && res.inconclusive.is_none() {
                    for j in 1..k {
                        let mut cj = cfg0.clone();
                        cj.teardown = false; // the recorded sequence already contains the teardown
                        cj.layout_seed = mix(cfg0.layout_seed, j as u64);
                        cj.alloc_mode = match j % 4 {
                            3 => alloc::MODE_PLAIN,
                            2 => alloc::MODE_QUARANTINE,
                            _ => alloc::MODE_SCATTER,
                        };
                        let mut it = ops0.clone().into_iter();
                        let mut g = |_: &World| it.next();
                        let rj = run::run_history(&cj, &mut g, 100_000);
                        runs += 1;
                        layouts.insert(rj.layout_digest);
                        if rj.violations.iter().any(|v| v.known_sig.is_some()) {
                            // the known C13 finding is evaluated at a destructor start; whether it
                            // fires can depend on the (legitimately varying) order inside one group
                            AGG.with(|ag| *ag.borrow_mut().extra.entry("elide_histories_skipped_known_finding".into()).or_insert(0) += 1);
                            break;
                        }
                        let diverged = rj.digest != res.digest || rj.inconclusive.is_some();
                        if diverged {
                            res.violations.push(world::Violation {
                                prop: "C09",
                                rule: "layout",
                                hard: false,
                                msg: format!(
                                    "same call sequence, different heap layout (run {} alloc mode {}): digest of destroyed sets and counts {:016x} vs {:016x}{}",
                                    j,
                                    cj.alloc_mode,
                                    rj.digest,
                                    res.digest,
                                    rj.inconclusive.as_ref().map(|s| format!("; replay stopped: {}", s)).unwrap_or_default()
                                ),
                                event_idx: 0,
                                op_idx: 0,
                                known_sig: None,
                            });
                            res.log = rj.log.clone();
                            break;
                        }
                        let _ = rj.violations;
                    }
                }
                AGG.with(|ag| {
                    let mut ag = ag.borrow_mut();
                    *ag.extra.entry("layout_runs".into()).or_insert(0) += runs;
                    if res.tables_multi > 0 {
                        *ag.extra.entry("histories_with_multi_entry_tables".into()).or_insert(0) += 1;
                        if layouts.len() >= 2 {
                            *ag.extra.entry("histories_where_layouts_produced_distinct_table_orders".into()).or_insert(0) += 1;
                        }
                    }
                    *ag.extra.entry(format!("distinct_table_order_digests_{}", layouts.len().min(8))).or_insert(0) += 1;
                });
                res.distinct_orders_max = layouts.len();
                (res, format!("layout seed={} idx={} K={} {}", seed, this, k, srcdesc))
            }
            None if gen == "diff" => {
                let pseed = mix(seed ^ 0xD1FF, this);
                let len = 15 + (mix(pseed, 3) % a.u64("len", 90)) as usize;
                let prog = diff::gen_program(pseed, len);
                let over_aligned = this % 4 == 3;
                let d = diff::run_diff(&prog, over_aligned);
                AGG.with(|ag| {
                    *ag.borrow_mut().extra.entry(if over_aligned { "programs_on_64_byte_aligned_payload".to_string() } else { "programs_on_word_aligned_payload".to_string() }).or_insert(0) += 1;
                });
                let mut res = empty_result();
                res.stats.ops = d.ops as u64;
                res.stats.events = d.lines as u64;
                res.stats.begins = d.drops as u64;
                res.all_dead = true;
                res.log = d.transcript_tail.clone();
                let progstr = format!("{:?}", prog);
                AGG.with(|ag| {
                    let mut ag = ag.borrow_mut();
                    for (k, v) in &d.coverage {
                        *ag.extra.entry(format!("call:{}", k)).or_insert(0) += v;
                    }
                });
                if let Some((line, c, s)) = d.mismatch {
                    res.violations.push(world::Violation {
                        prop: "C07",
                        rule: "diff",
                        hard: false,
                        msg: format!("transcripts differ at line {}: cactusref `{}` vs std::rc `{}`; program {}", line, c, s, progstr),
                        event_idx: line,
                        op_idx: 0,
                        known_sig: None,
                    });
                }
                DIFF_SAMPLE.with(|d| {
                    let mut d = d.borrow_mut();
                    if d.len() < 3 {
                        d.push(progstr.chars().take(700).collect());
                    }
                });
                (res, format!("diff seed={} idx={} pseed={} len={}", seed, this, pseed, len))
            }
            None if gen == "nodrop" || gen == "nodropconsume" => {
                let mut res = empty_result();
                let desc = nodrop::run(this, seed, gen == "nodropconsume", &mut res);
                (res, format!("nodrop seed={} idx={} [{}]", seed, this, desc))
            }
            None if gen == "deadclone" || gen == "deaddrop" || gen == "deadclonelate" || gen == "deadclonepanic" || gen == "deadcloneafterweak" || gen == "deadclonefrom" => {
                let r = run_child(&gen, this, seed);
                (r.0, r.1)
            }
            None if gen == "family" => {
                let (ops, desc) = gen::family_ops(this, seed, class, a.u64("max-n", 12) as usize);
                let ops = if a.flag("drop-variants") { gen::with_drop_variants(ops, mix(seed, this)) } else { ops };
                let mut it = ops.into_iter();
                let mut g = |_: &World| it.next();
                let r = run::run_history(&cfg, &mut g, 100_000);
                (r, format!("family class={} seed={} idx={} [{}]", class.name(), seed, this, desc))
            }
            None => {
                let hseed = mix(seed, this);
                let len = 10 + (mix(hseed, 1) % (a.u64("len", 60))) as usize;
                let rc = RandCfg {
                    class,
                    max_objs: 2 + (mix(hseed, 2) % a.u64("objs", 5)) as usize,
                    len,
                    weak_bias: a.u64("weak-bias", 1) as u32,
                    consume_bias: a.u64("consume-bias", if class == Class::Consume { 3 } else { 0 }) as u32,
                };
                let mut rg = RandGen::new(rc, hseed);
                let mut g = |w: &World| rg.next(w);
                let r = run::run_history(&cfg, &mut g, 10_000);
                (r, format!("rand class={} seed={} idx={} hseed={}", class.name(), seed, this, hseed))
            }
        };
        let nviol = AGG.with(|ag| {
            let mut ag = ag.borrow_mut();
            report(&prop, &mut ag, this, &coord, &cfg, &res);
            ag.violations
        });
        if nviol >= max_viol {
            exhausted = false;
            break;
        }
    }
    AGG.with(|ag| emit(&format!("S {}", summary(&prop, &ag.borrow()))));
    emit(&format!("D {}", json::Obj::new().boolean("exhausted", exhausted).num("next", idx).end()));
    0
}

thread_local! {
    static DIFF_SAMPLE: std::cell::RefCell<Vec<String>> = std::cell::RefCell::new(Vec::new());
}

fn empty_result() -> HistResult {
    HistResult {
        violations: vec![],
        inconclusive: None,
        ops: vec![],
        stats: Stats::default(),
        paths: Paths::default(),
        digest: 0,
        layout_digest: 0,
        distinct_orders_max: 0,
        tables_multi: 0,
        log: vec![],
        objects: 0,
        all_dead: false,
    }
}

/// C16: run one scenario in a child process and judge it by its exit status and output.
fn run_child(gen: &str, idx: u64, seed: u64) -> (HistResult, String) {
    let exe = std::env::current_exe().expect("current_exe");
    let out = std::process::Command::new(exe)
        .args(["child", "--mode", gen, "--idx", &idx.to_string(), "--seed", &seed.to_string()])
        .output();
    let mut res = HistResult {
        violations: vec![],
        inconclusive: None,
        ops: vec![],
        stats: Stats::default(),
        paths: Paths::default(),
        digest: 0,
        layout_digest: 0,
        distinct_orders_max: 0,
        tables_multi: 0,
        log: vec![],
        objects: 0,
        all_dead: false,
    };
    let out = match out {
        Ok(o) => o,
        Err(e) => {
            res.inconclusive = Some(format!("cannot spawn child: {}", e));
            return (res, format!("{} idx={}", gen, idx));
        }
    };
    let stdout = String::from_utf8_lossy(&out.stdout).to_string();
    let stderr = String::from_utf8_lossy(&out.stderr).to_string();
    let mut desc = String::new();
    let mut opstr = String::new();
    let mut done = false;
    let mut child_viol: Vec<String> = vec![];
    let mut before = false;
    let mut after = false;
    let mut dead_drops = 0u64;
    for l in stdout.lines() {
        if let Some(d) = l.strip_prefix("CHILD-DESC ") {
            desc = d.to_string();
        } else if let Some(o) = l.strip_prefix("CHILD-OPS ") {
            opstr = o.to_string();
        } else if l.starts_with("BEFORE-CLONE") {
            before = true;
        } else if l.starts_with("AFTER-CLONE") {
            after = true;
        } else if let Some(d) = l.strip_prefix("CHILD-DONE ") {
            done = true;
            for kv in d.split_whitespace() {
                if let Some(v) = kv.strip_prefix("dead_drops=") {
                    dead_drops = v.parse().unwrap_or(0);
                }
            }
        } else if let Some(v) = l.strip_prefix("CHILD-VIOLATION ") {
            child_viol.push(v.to_string());
        }
    }
    res.ops = ops::parse_ops(&opstr).unwrap_or_default();
    res.log = stdout.lines().rev().take(40).collect::<Vec<_>>().into_iter().rev().map(|s| s.to_string()).collect();
    use std::os::unix::process::ExitStatusExt;
    let sig = out.status.signal();
    let code = out.status.code();
    let mk = |rule: &'static str, msg: String| world::Violation { prop: "C16", rule, hard: true, msg, event_idx: 0, op_idx: 0, known_sig: None };
    if before {
        res.stats.dead_clones_attempted = 1;
        // SIGILL (ud2 from core::intrinsics::abort) or SIGABRT are the expected ways to die
        let died = matches!(sig, Some(4) | Some(6));
        if after || !died {
            res.violations.push(mk(
                "deadclone",
                format!(
                    "cloning a handle to a destroyed object inside a destructor did not terminate the process (AFTER-CLONE printed: {}, signal {:?}, exit code {:?}); stderr: {}",
                    after,
                    sig,
                    code,
                    stderr.lines().last().unwrap_or("")
                ),
            ));
        }
    } else {
        res.stats.dead_drops = dead_drops;
        if !(done && code == Some(0)) {
            res.violations.push(mk(
                "once",
                format!("scenario that only drops handles to destroyed peers did not complete normally (signal {:?}, exit code {:?}); stderr: {}", sig, code, stderr.lines().last().unwrap_or("")),
            ));
        }
    }
    for v in child_viol {
        res.violations.push(mk("once", format!("monitor inside the child: {}", v)));
    }
    res.stats.ops = res.ops.len() as u64;
    (res, format!("{} seed={} idx={} [{}]", gen, seed, idx, desc))
}

fn cmd_child(a: &Args) -> i32 {
    install_panic_hook();
    let mode = match a.get("mode").unwrap_or("deadclone") {
        "deadclone" => gen::ScriptMode::DeadClone,
        "deadclonelate" => gen::ScriptMode::DeadCloneLate,
        "deadclonepanic" => gen::ScriptMode::DeadClonePanic,
        "deadcloneafterweak" => gen::ScriptMode::DeadCloneAfterWeak,
        "deadclonefrom" => gen::ScriptMode::DeadCloneFrom,
        _ => gen::ScriptMode::DeadDrop,
    };
    let idx = a.u64("idx", 0);
    let seed = a.u64("seed", 1);
    let (ops, desc) = gen::script_ops(idx, seed, mode);
    println!("CHILD-DESC {}", desc);
    println!("CHILD-OPS {}", ops_to_string(&ops));
    let _ = std::io::stdout().flush();
    let value_offset = run::measure_value_offset();
    let cfg = HistCfg {
        class: Class::Dead,
        alloc_mode: (mix(idx, 77) % 3) as u8,
        layout_seed: mix(idx, seed),
        teardown: true,
        check_links: true,
        check_mem: true,
        value_offset,
        hard_exit: false,
        light: a.flag("light"),
        sweep_every: 1,
        allow_stale: false,
    };
    let mut it = ops.into_iter();
    let mut g = |_: &World| it.next();
    let r = run::run_history(&cfg, &mut g, 100_000);
    for v in &r.violations {
        println!("CHILD-VIOLATION {} {} {}", v.prop, v.rule, v.msg);
    }
    if let Some(w) = &r.inconclusive {
        println!("CHILD-INCONCLUSIVE {}", w);
    }
    println!("CHILD-DONE dead_drops={} begins={}", r.stats.dead_drops, r.stats.begins);
    let _ = std::io::stdout().flush();
    0
}

fn cmd_scale(a: &Args) -> i32 {
    // the process must not have allocated tracked blocks that are freed in bypass mode: switch
    // first thing (everything allocated before is leaked at exit anyway)
    let shape = a.get("shape").unwrap_or("ring").to_string();
    let n = a.u64("n", 1000) as usize;
    let stack = a.u64("stack-kib", 128) as usize;
    let seed = a.u64("seed", 1);
    println!("SCALE-BEGIN shape={} n={} stack_kib={}", shape, n, stack);
    let _ = std::io::stdout().flush();
    alloc::set_bypass(true);
    let r = scale::run_on_small_stack(shape.clone(), n, seed, stack);
    match r {
        Ok(o) => {
            let line = json::Obj::new()
                .str("shape", &shape)
                .num("n", o.n as u64)
                .num("stack_kib", stack as u64)
                .num("pairs", o.pairs as u64)
                .num("loopbacks", o.loopbacks as u64)
                .num("edges", o.edges as u64)
                .num("traces", o.traces as u64)
                .num("pops", o.pops as u64)
                .num("expansions", o.expansions as u64)
                .num("entries", o.entries as u64)
                .num("group_members", o.group_members as u64)
                .num("drops", o.drops as u64)
                .num("max_depth", o.max_depth as u64)
                .num("build_ms", o.build_ms as u64)
                .num("collect_ms", o.collect_ms as u64)
                .num("collect_cpu_us", o.collect_cpu_us)
                .num("small_before_cpu_us", o.small_before_cpu_us)
                .num("small_after_cpu_us", o.small_after_cpu_us)
                .num("small_before_bytes", o.small_before_bytes)
                .num("small_after_bytes", o.small_after_bytes)
                .end();
            println!("SCALE {}", line);
            let _ = std::io::stdout().flush();
            // leave without running allocator bookkeeping on bypassed blocks
            std::process::exit(0);
        }
        Err(e) => {
            println!("SCALE-ERROR {}", e);
            1
        }
    }
}

fn cmd_replay(a: &Args) -> i32 {
    install_panic_hook();
    let class = Class::parse(a.get("class").unwrap_or("WF")).expect("bad class");
    let opstr = a.get("ops").map(|s| s.to_string()).unwrap_or_else(|| {
        let p = a.get("file").expect("--ops or --file");
        std::fs::read_to_string(p).expect("read ops file")
    });
    let ops: Vec<Op> = ops::parse_ops(&opstr).expect("cannot parse ops");
    let value_offset = run::measure_value_offset();
    let cfg = HistCfg {
        class,
        alloc_mode: alloc_mode_for(a, 0),
        layout_seed: a.u64("layout-seed", 1),
        teardown: a.flag("teardown"),
        check_links: !a.flag("no-links"),
        check_mem: !a.flag("no-mem"),
        value_offset,
        hard_exit: false,
        light: false,
        sweep_every: 1,
        allow_stale: a.flag("allow-stale"),
    };
    let mut it = ops.into_iter();
    let mut g = |_: &World| it.next();
    let r = run::run_history(&cfg, &mut g, 100_000);
    let log = world::with(|w| w.fmt_log());
    for l in &log {
        println!("  {}", l);
    }
    world::with(|w| {
        for (i, o) in w.objs.iter().enumerate() {
            println!("  obj #{} {:?} ext={} held={:?} wext={} wheld={:?} rec={:?} loop={} addr={:#x}", i, o.state, o.ext, o.held, o.wext, o.wheld, o.rec, o.looprec, o.addr);
        }
    });
    println!("digest={:016x} objects={} all_dead={}", r.digest, r.objects, r.all_dead);
    if let Some(w) = &r.inconclusive {
        println!("INCONCLUSIVE: {}", w);
    }
    for v in &r.violations {
        println!("VIOLATED {} rule={} hard={} at op {}: {}", v.prop, v.rule, v.hard, v.op_idx, v.msg);
    }
    if r.violations.is_empty() {
        println!("HELD");
        0
    } else {
        1
    }
}

fn main() {
    let argv: Vec<String> = std::env::args().skip(1).collect();
    if argv.is_empty() {
        eprintln!("usage: vh <run|replay|...> [--key value]...");
        std::process::exit(2);
    }
    let a = Args::parse(&argv[1..]);
    let code = match argv[0].as_str() {
        "run" => cmd_run(&a),
        "replay" => cmd_replay(&a),
        "child" => cmd_child(&a),
        "scale" => cmd_scale(&a),
        "version" => {
            println!("vh {} monalloc={}", env!("CARGO_PKG_VERSION"), alloc::ENABLED);
            0
        }
        other => {
            eprintln!("unknown command {}", other);
            2
        }
    };
    std::process::exit(code);
}
