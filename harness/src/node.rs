//! The instrumented payload type. Its destructor is part of the monitored boundary: the library
//! calls out to it, so Begin/Rel/End events are recorded at the library/user boundary.

use std::cell::{Cell, RefCell};

use cactusref::{Rc, Weak};

use crate::alloc;
use crate::exec;
use crate::ops::{Op, When};
use crate::world::{self, Ev};

pub const CANARY_ALIVE: u64 = 0xC0FF_EE00_600D_F00D;
pub const CANARY_DEAD: u64 = 0xDEAD_DEAD_0BAD_F00D;

/// Over-aligned on purpose: the value then does not start right after the allocation header, so
/// every raw-pointer round trip (from_raw, increment/decrement_strong_count) exercises the
/// padded layout as well (the repository's own tests only use word-aligned payloads).
#[repr(align(16))]
pub struct Node {
    pub id: u32,
    pub canary: Cell<u64>,
    pub out: RefCell<Vec<Rc<Node>>>,
    pub weaks: RefCell<Vec<Weak<Node>>>,
    pub script: RefCell<Vec<(When, Op)>>,
    /// value clones (make_mut) do not copy the stored handles
    pub shallow: Cell<bool>,
    /// the destructor releases stored handles through into_raw + decrement_strong_count
    pub raw_release: Cell<bool>,
    /// the next `Clone::clone` of this value panics before it does anything (one shot)
    pub clone_bomb: Cell<bool>,
    /// the next `Clone::clone` of this value first drops every other handle the program holds to
    /// the object (a cache eviction inside `Clone`): the handle passed to make_mut may then be the
    /// last one when the copy returns
    pub clone_evict: Cell<bool>,
}

/// Payload of the panic raised by an armed `clone_bomb`.
pub struct CloneBombPanic;

impl Node {
    pub fn new(id: u32) -> Node {
        Node {
            id,
            canary: Cell::new(CANARY_ALIVE),
            out: RefCell::new(Vec::new()),
            weaks: RefCell::new(Vec::new()),
            script: RefCell::new(Vec::new()),
            shallow: Cell::new(false),
            raw_release: Cell::new(false),
            clone_bomb: Cell::new(false),
            clone_evict: Cell::new(false),
        }
    }
}

/// Runs the tail of the destructor on both the normal and the unwinding path, so that the ledger
/// stays exact when a scripted panic interrupts the destructor.
struct Finish<'a> {
    node: &'a Node,
    stage: Cell<u8>,
}

impl<'a> Finish<'a> {
    fn release_strong(&self) {
        let node = self.node;
        loop {
            let h = match node.out.try_borrow_mut() {
                Ok(mut v) => v.pop(),
                Err(_) => None,
            };
            let h = match h {
                Some(h) => h,
                None => break,
            };
            let id = node.id;
            let tgt = world::with(|w| {
                let t = w.objs[id as usize].held.pop();
                match t {
                    Some(t) => {
                        w.ev(Ev::Rel(id, t));
                        w.drop_begin(t);
                        Some(t)
                    }
                    None => {
                        w.harness_error(format!("ledger of #{} has fewer stored handles than its value", id));
                        None
                    }
                }
            });
            let tgt = match tgt {
                Some(t) => t,
                None => {
                    std::mem::forget(h);
                    break;
                }
            };
            {
                let _g = RelGuard { id, tgt };
                let prev = alloc::enter_lib();
                if node.raw_release.get() {
                    let raw = Rc::into_raw(h);
                    unsafe { Rc::decrement_strong_count(raw) };
                } else {
                    drop(h);
                }
                alloc::restore(prev);
            }
        }
    }

    fn release_weak(&self) {
        let node = self.node;
        loop {
            let wk = match node.weaks.try_borrow_mut() {
                Ok(mut v) => v.pop(),
                Err(_) => None,
            };
            let wk = match wk {
                Some(w) => w,
                None => break,
            };
            exec::probe_and_drop_own_weak(node.id, wk);
        }
    }

    /// Stages: 0 pre-scripts, 1 release strong handles, 2 post-scripts, 3 release weak handles,
    /// 4 end. Script stages are marked done *before* they run (a script that panicked must not run
    /// again); release stages are idempotent loops and are marked done *after* they finish, so an
    /// interrupted release is resumed on the unwinding path.
    fn run(&self) {
        if self.stage.get() == 0 {
            self.stage.set(1);
            exec::run_scripts(self.node, When::Pre);
        }
        if self.stage.get() == 1 {
            self.release_strong();
            self.stage.set(2);
        }
        if self.stage.get() == 2 {
            self.stage.set(3);
            exec::run_scripts(self.node, When::Post);
        }
        if self.stage.get() == 3 {
            self.release_weak();
            self.stage.set(4);
        }
        if self.stage.get() == 4 {
            self.stage.set(5);
            let id = self.node.id;
            world::with(|w| w.on_end(id));
        }
    }
}

struct RelGuard {
    id: u32,
    tgt: u32,
}
impl Drop for RelGuard {
    fn drop(&mut self) {
        let unwinding = std::thread::panicking();
        let (id, tgt) = (self.id, self.tgt);
        world::with(|w| {
            w.ev(Ev::RelDone(id, tgt));
            w.drop_end(unwinding);
        });
    }
}

impl<'a> Drop for Finish<'a> {
    fn drop(&mut self) {
        // on the unwinding path (scripted panic) continue where the destructor was interrupted;
        // nothing in here panics by itself.
        self.run();
    }
}

impl Drop for Node {
    fn drop(&mut self) {
        let prev = alloc::enter_user();
        let ok = {
            let this: &Node = &*self;
            let canary_ok = this.canary.get() == CANARY_ALIVE;
            let id = this.id;
            let ptr = this as *const Node;
            let ok = world::with(|w| w.on_begin(id, canary_ok, ptr));
            if ok {
                this.canary.set(CANARY_DEAD);
                let fin = Finish { node: this, stage: Cell::new(0) };
                fin.run();
                // Finish::drop runs `run` again, which is a no-op at stage 5
            }
            ok
        };
        if !ok {
            // Corrupt or already destroyed: do not let drop glue touch the fields again.
            unsafe {
                std::ptr::write(&mut self.out, RefCell::new(Vec::new()));
                std::ptr::write(&mut self.weaks, RefCell::new(Vec::new()));
                std::ptr::write(&mut self.script, RefCell::new(Vec::new()));
            }
        }
        alloc::restore(prev);
    }
}

impl Clone for Node {
    /// Used by `Rc::make_mut` only. The clone is a new object: it owns new handles to the same
    /// targets; no adoption is recorded for them.
    fn clone(&self) -> Node {
        if self.clone_bomb.replace(false) {
            // user code failing inside make_mut, before anything was copied: the call must leave
            // every handle, count and table exactly as it found them and release its scratch box
            std::panic::panic_any(CloneBombPanic);
        }
        let prev = alloc::enter_user();
        let src = self.id;
        if self.clone_evict.replace(false) {
            // the handle make_mut works on has left its slot already: every remaining program slot
            // that refers to this object is one of the *other* handles
            let slots: Vec<usize> = world::with(|w| (0..w.handles.len()).filter(|&s| w.handles[s].is_some() && w.htarget[s] == src).collect());
            world::with(|w| {
                w.stats.clone_evictions += 1;
                w.ev(world::Ev::Note(format!("Clone of #{} drops the program's other handles {:?}", src, slots)));
            });
            for s in slots {
                let _ = crate::exec::exec(&Op::Drop(s));
            }
        }
        let new_id = world::with(|w| w.next_id());
        let n = Node::new(new_id);
        let shallow = self.shallow.get();
        n.shallow.set(shallow);
        n.raw_release.set(self.raw_release.get());
        if !shallow {
            let outs = self.out.borrow();
            let mut v = n.out.borrow_mut();
            for h in outs.iter() {
                let p = alloc::enter_lib();
                let c = Rc::clone(h);
                alloc::restore(p);
                v.push(c);
            }
            let ws = self.weaks.borrow();
            let mut wv = n.weaks.borrow_mut();
            for w in ws.iter() {
                let p = alloc::enter_lib();
                let c = Weak::clone(w);
                alloc::restore(p);
                wv.push(c);
            }
        }
        world::with(|w| {
            // register the clone; its address is filled in by the executor when make_mut returns
            let held = if shallow { vec![] } else { w.objs[src as usize].held.clone() };
            let wheld = if shallow { vec![] } else { w.objs[src as usize].wheld.clone() };
            let id = w.new_obj(0, None);
            debug_assert_eq!(id, new_id);
            w.objs[id as usize].held = held;
            w.objs[id as usize].wheld = wheld;
            w.objs[id as usize].ghost = true;
            w.ev(Ev::Note(format!("value of #{} cloned into #{}", src, id)));
            // the handle passed to make_mut is replaced by a handle to the clone: the old handle
            // is dropped by the library right after this callback returns
            if w.makemut_pending == Some(src) {
                w.makemut_pending = None;
                w.makemut_cloned = Some(id);
                w.objs[src as usize].ext -= 1;
                w.drop_begin(src);
            }
        });
        alloc::restore(prev);
        n
    }
}
