//! Groups of values *without drop glue* (C03, C01, C04).
//!
//! Nothing in the properties ties adoption bookkeeping to the payload having a destructor: a value
//! may own its strong handles in raw form (`Rc::into_raw` pointers in a `Cell`, `ManuallyDrop<Rc>`)
//! and record the ownership with `adopt_unchecked` all the same. Such a value's destruction cannot
//! be observed by a destructor; it is observed through Weak handles (`strong_count`, `upgrade`) and
//! through the allocator (the box is returned when the last Weak goes).
//!
//! Scenario: a strongly connected group A (ring, ring + chords, clique, with self-adoptions through
//! a clone, with parallel edges), optionally owning handles into a second strongly connected group
//! B that the program keeps. The program gives up its handles to A in a random order. Before the
//! last one goes every member must be alive with exact counts; when the last one goes all of A
//! must be dead at once — unless A owns handles into B: then the forward closure of A is not
//! orphaned and nothing is required of A, but B must be untouched. With no B, the library must
//! hold no memory once the Weak handles are dropped.

use std::cell::Cell;

use cactusref::{Adopt, Rc, Weak};

use crate::alloc;
use crate::rng::Rng;
use crate::run::{HistResult, Paths};
use crate::world::Violation;

const MAX_OUT: usize = 6;

/// A value type without drop glue.
pub trait Payload: Sized + Clone + 'static {
    const NAME: &'static str;
    fn make(id: u32) -> Self;
    fn intact(&self, id: u32) -> bool;
    /// keep an owned handle in raw form (a type with no room for it leaves it with the harness)
    fn keep(&self, k: usize, raw: *const Self);
}

/// No field has drop glue: `needs_drop::<RawNode>()` is false.
#[derive(Clone)]
pub struct RawNode {
    pub id: u32,
    pub canary: Cell<u64>,
    pub out: Cell<[*const RawNode; MAX_OUT]>,
}

const CANARY: u64 = 0x5AFE_C0DE_D00D_F00D;

impl Payload for RawNode {
    const NAME: &'static str = "raw-pointer node";
    fn make(id: u32) -> Self {
        RawNode { id, canary: Cell::new(CANARY), out: Cell::new([std::ptr::null(); MAX_OUT]) }
    }
    fn intact(&self, id: u32) -> bool {
        self.id == id && self.canary.get() == CANARY
    }
    fn keep(&self, k: usize, raw: *const Self) {
        let mut o = self.out.get();
        o[k] = raw;
        self.out.set(o);
    }
}

/// Zero-sized payload: the allocation is the header alone.
impl Payload for () {
    const NAME: &'static str = "zero-sized";
    fn make(_: u32) -> Self {}
    fn intact(&self, _: u32) -> bool {
        true
    }
    fn keep(&self, _: usize, _: *const Self) {}
}

/// Over-aligned payload: padding between the header and the value.
#[derive(Clone)]
#[repr(align(64))]
pub struct Wide {
    id: u32,
    canary: Cell<u64>,
}

impl Payload for Wide {
    const NAME: &'static str = "64-byte aligned";
    fn make(id: u32) -> Self {
        Wide { id, canary: Cell::new(CANARY) }
    }
    fn intact(&self, id: u32) -> bool {
        self.id == id && self.canary.get() == CANARY && (self as *const Wide as usize) % 64 == 0
    }
    fn keep(&self, _: usize, _: *const Self) {}
}

fn new_node<T: Payload>(id: u32) -> Rc<T> {
    let p = alloc::enter_lib();
    let rc = Rc::new(T::make(id));
    alloc::restore(p);
    rc
}

/// `a` comes to own a new recorded handle to `b` (kept in raw form).
fn link<T: Payload>(a: &Rc<T>, b: &Rc<T>, k: usize) -> bool {
    link_raw(a, b, k).is_some()
}

fn link_raw<T: Payload>(a: &Rc<T>, b: &Rc<T>, k: usize) -> Option<*const T> {
    if k >= MAX_OUT {
        return None;
    }
    let p = alloc::enter_lib();
    let h = Rc::clone(b);
    unsafe { Rc::adopt_unchecked(a, &h) };
    let raw = Rc::into_raw(h);
    alloc::restore(p);
    a.keep(k, raw);
    Some(raw)
}

fn viol(res: &mut HistResult, prop: &'static str, rule: &'static str, msg: String) {
    if !res.violations.iter().any(|v| v.prop == prop && v.rule == rule) {
        res.violations.push(Violation { prop, rule, hard: false, msg, event_idx: 0, op_idx: 0, known_sig: None });
    }
}

/// `consume`: an outside owner of some members is given up by `try_unwrap` / `make_mut` (C12) at some
/// point; from then on violations are attributed to C12 (leaks stay with C04).
pub fn run(idx: u64, seed: u64, consume: bool, res: &mut HistResult) -> String {
    match idx % 4 {
        2 => run_with::<()>(idx, seed, consume, res),
        3 => run_with::<Wide>(idx, seed, consume, res),
        _ => run_with::<RawNode>(idx, seed, consume, res),
    }
}

fn attr(consumed: bool, native: &'static str) -> &'static str {
    if consumed && native != "C04" {
        "C12"
    } else {
        native
    }
}

fn run_with<T: Payload>(idx: u64, seed: u64, consume: bool, res: &mut HistResult) -> String {
    assert!(!std::mem::needs_drop::<T>());
    let mut rng = Rng::new(crate::rng::mix(seed ^ 0x0D20, idx));
    let na = 1 + rng.below(5); // members of A
    let nb = if rng.chance(1, 3) { 1 + rng.below(3) } else { 0 };
    let kind = rng.below(4);
    alloc::reset_lib_accounting();
    let p0 = Paths::snapshot();
    let nodes: Vec<Rc<T>> = (0..na + nb).map(|i| new_node::<T>(i as u32)).collect();
    let mut indeg = vec![0usize; na + nb]; // handles owned by values
    let mut outdeg = vec![0usize; na + nb];
    let mut edge = |a: usize, b: usize, indeg: &mut Vec<usize>| {
        if link(&nodes[a], &nodes[b], outdeg[a]) {
            outdeg[a] += 1;
            indeg[b] += 1;
        }
    };
    // A: ring (a single member adopts itself through a clone)
    for i in 0..na {
        edge(i, (i + 1) % na, &mut indeg);
    }
    match kind {
        1 => {
            for _ in 0..rng.below(2 * na + 1) {
                let (x, y) = (rng.below(na), rng.below(na));
                edge(x, y, &mut indeg); // chords, parallel edges, self-adoptions through a clone
            }
        }
        2 if na <= 4 => {
            for x in 0..na {
                for y in 0..na {
                    if x != y && (y != (x + 1) % na) {
                        edge(x, y, &mut indeg);
                    }
                }
            }
        }
        3 => {
            let x = rng.below(na);
            edge(x, x, &mut indeg);
            edge(x, (x + 1) % na, &mut indeg);
        }
        _ => {}
    }
    // B: ring kept by the program; A owns handles into it (never the other way round)
    for i in 0..nb {
        edge(na + i, na + (i + 1) % nb, &mut indeg);
    }
    if nb > 0 {
        for _ in 0..1 + rng.below(2) {
            edge(rng.below(na), na + rng.below(nb), &mut indeg);
        }
    }
    // C12: an outside owner of one or two members of A, held by exactly one program handle
    let mut owner: Option<Rc<T>> = None;
    let mut owner_raws: Vec<(*const T, usize)> = vec![];
    let mut owner_weak: Option<Weak<T>> = None;
    let mut consumed = false;
    let consume_at = rng.below(na); // before this drop step
    let by_make_mut = rng.chance(1, 2);
    if consume {
        let o = new_node::<T>((na + nb) as u32);
        for k in 0..1 + rng.below(2) {
            let t = rng.below(na);
            if let Some(raw) = link_raw(&o, &nodes[t], k) {
                owner_raws.push((raw, t));
                indeg[t] += 1;
            }
        }
        if by_make_mut || rng.chance(1, 2) {
            let p = alloc::enter_lib();
            owner_weak = Some(Rc::downgrade(&o));
            alloc::restore(p);
        }
        owner = Some(o);
    }
    let weaks: Vec<Weak<T>> = nodes
        .iter()
        .map(|n| {
            let p = alloc::enter_lib();
            let w = Rc::downgrade(n);
            alloc::restore(p);
            w
        })
        .collect();
    let mut prog: Vec<Option<Rc<T>>> = nodes.into_iter().map(Some).collect();
    // give up the handles to A in a random order
    let mut order: Vec<usize> = (0..na).collect();
    for i in (1..order.len()).rev() {
        order.swap(i, rng.below(i + 1));
    }
    let desc = format!(
        "nodrop payload={} kind={} A={} B={} order={:?}{}",
        T::NAME,
        kind,
        na,
        nb,
        order,
        if consume { format!(" owner of {:?} given up by {} before step {}, weak {}", owner_raws.iter().map(|r| r.1).collect::<Vec<_>>(), if by_make_mut { "make_mut" } else { "try_unwrap" }, consume_at, owner_weak.is_some()) } else { String::new() }
    );
    for (step, &x) in order.iter().enumerate() {
        if consume && step == consume_at {
            let mut o = owner.take().unwrap();
            let p = alloc::enter_lib();
            if by_make_mut {
                // one strong handle and a Weak: the value moves to a new allocation, the old one is
                // given up; the moved value still owns its raw handles, which it now releases
                let _ = Rc::make_mut(&mut o);
                for (raw, t) in owner_raws.drain(..) {
                    unsafe { Rc::decrement_strong_count(raw) };
                    indeg[t] -= 1;
                }
                drop(o);
            } else {
                match Rc::try_unwrap(o) {
                    Ok(val) => {
                        for (raw, t) in owner_raws.drain(..) {
                            unsafe { Rc::decrement_strong_count(raw) };
                            indeg[t] -= 1;
                        }
                        std::mem::forget(val);
                    }
                    Err(o) => {
                        viol(res, "C12", "count", format!("{}: try_unwrap through the only strong handle was refused", desc));
                        std::mem::forget(o);
                        owner_raws.clear();
                    }
                }
            }
            alloc::restore(p);
            consumed = true;
            res.stats.consume_ok += 1;
            if let Some(w) = &owner_weak {
                if w.strong_count() != 0 || w.upgrade().is_some() {
                    viol(res, "C12", "weak", format!("{}: a Weak to the given-up allocation of the owner still reports it alive", desc));
                }
            }
        }
        let h = prog[x].take().unwrap();
        let p = alloc::enter_lib();
        if step % 3 == 2 {
            let raw = Rc::into_raw(h);
            unsafe { Rc::decrement_strong_count(raw) };
        } else {
            drop(h);
        }
        alloc::restore(p);
        let last = step + 1 == na;
        for i in 0..na + nb {
            let held = prog[i].is_some() as usize;
            let sc = weaks[i].strong_count();
            if i < na && last && nb > 0 {
                // the forward closure of A includes B, which the program still holds: the property
                // requires nothing of A here (it is unreachable garbage the library may keep)
                continue;
            }
            if i < na && last {
                res.stats.weak_obs += 1;
                if sc != 0 || weaks[i].upgrade().is_some() {
                    viol(res, attr(consumed, "C03"), "sync", format!("{}: the last outside handle of group A is gone but member {} is still alive (strong_count {}): values without drop glue", desc, i, sc));
                }
            } else {
                // A is still held by the program (or this is B): alive, exact count, intact value
                let expect = held + indeg[i];
                res.stats.count_obs += 1;
                if sc != expect {
                    let prop = attr(consumed, if sc == 0 { "C01" } else { "C06" });
                    viol(res, prop, if sc == 0 { "live" } else { "count" }, format!("{}: after step {} object {} has strong_count {} but {} handles exist", desc, step, i, sc, expect));
                }
                if sc != 0 {
                    let p = alloc::enter_lib();
                    let up = weaks[i].upgrade();
                    alloc::restore(p);
                    match up {
                        Some(rc) => {
                            if !rc.intact(i as u32) {
                                viol(res, attr(consumed, "C01"), "live", format!("{}: object {} is damaged or misplaced (value at {:p})", desc, i, Rc::as_ptr(&rc)));
                            }
                            let p = alloc::enter_lib();
                            drop(rc);
                            alloc::restore(p);
                        }
                        None => viol(res, attr(consumed, "C01"), "live", format!("{}: object {} cannot be upgraded although {} handles exist", desc, i, expect)),
                    }
                }
            }
        }
    }
    if nb == 0 {
        res.stats.required_groups = 1;
        res.stats.required_group_members = na as u64;
        res.stats.begins = na as u64;
    }
    res.stats.ops = (na + nb) as u64 * 2;
    res.stats.links_entries = 2 * outdeg.iter().sum::<usize>() as u64;
    // the Weak handles to A go: with no B the library must hold nothing afterwards
    let p = alloc::enter_lib();
    for (i, w) in weaks.into_iter().enumerate() {
        if i < na {
            drop(w);
        } else {
            std::mem::forget(w); // B is deliberately leaked together with the raw handles into it
        }
    }
    alloc::restore(p);
    for h in prog.into_iter().flatten() {
        std::mem::forget(h);
    }
    if let Some(w) = owner_weak.take() {
        // the bare old allocation of the owner goes with its last Weak
        let p = alloc::enter_lib();
        drop(w);
        alloc::restore(p);
    }
    if nb == 0 && alloc::ENABLED {
        res.stats.mem_obs += 1;
        res.all_dead = true;
        let c = alloc::counters();
        if c.lib_live_blocks != 0 {
            viol(res, "C04", "mem", format!("{}: every object is destroyed and every Weak dropped, but the library still holds {} block(s) / {} byte(s)", desc, c.lib_live_blocks, c.lib_live_bytes));
        }
    }
    if alloc::ENABLED {
        let c = alloc::counters();
        if c.invalid_frees != 0 || c.layout_mismatch != 0 || c.write_after_free != 0 {
            viol(res, attr(consumed, "C02"), "once", format!("{}: allocator faults (invalid frees {}, releases with another layout {}, writes after free {})", desc, c.invalid_frees, c.layout_mismatch, c.write_after_free));
        }
    }
    res.paths = Paths::snapshot().minus(&p0);
    res.objects = na + nb;
    desc
}
