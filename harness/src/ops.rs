//! Operations of a history, and their compact text form (used in replay files).

use std::fmt;

pub type ObjId = u32;

/// Slot numbers >= REL are relative to the end of the slot table at execution time:
/// REL + k names the k-th most recently created slot (used by destructor scripts, which cannot
/// know absolute slot numbers in advance).
pub const REL: usize = 1 << 40;

pub fn rel(k: usize) -> usize {
    REL + k
}

fn norm_slot(s: usize, len: usize) -> usize {
    if s >= REL {
        len.wrapping_sub(1 + (s - REL))
    } else {
        s
    }
}

impl Op {
    /// Resolve relative slot numbers against the current table sizes.
    pub fn normalize(&self, hlen: usize, wlen: usize) -> Op {
        let h = |r: &HRef| match r {
            HRef::P(s) => HRef::P(norm_slot(*s, hlen)),
            x => *x,
        };
        let w = |r: &WRef| match r {
            WRef::P(s) => WRef::P(norm_slot(*s, wlen)),
            x => *x,
        };
        match self {
            Op::Clone(r) => Op::Clone(h(r)),
            Op::Drop(s) => Op::Drop(norm_slot(*s, hlen)),
            Op::Store(o, s) => Op::Store(*o, norm_slot(*s, hlen)),
            Op::Adopt(a, b) => Op::Adopt(h(a), h(b)),
            Op::Unadopt(a, b) => Op::Unadopt(h(a), h(b)),
            Op::Downgrade(r) => Op::Downgrade(h(r)),
            Op::Upgrade(r) => Op::Upgrade(w(r)),
            Op::CloneWeak(r) => Op::CloneWeak(w(r)),
            Op::DropWeak(s) => Op::DropWeak(norm_slot(*s, wlen)),
            Op::StoreWeak(o, s) => Op::StoreWeak(*o, norm_slot(*s, wlen)),
            Op::TryUnwrap(s) => Op::TryUnwrap(norm_slot(*s, hlen)),
            Op::MakeMut(s) => Op::MakeMut(norm_slot(*s, hlen)),
            Op::GetMut(s) => Op::GetMut(norm_slot(*s, hlen)),
            Op::RawRound(s) => Op::RawRound(norm_slot(*s, hlen)),
            Op::IncStrong(r) => Op::IncStrong(h(r)),
            Op::DecStrong(s) => Op::DecStrong(norm_slot(*s, hlen)),
            Op::CloneLate(s) => Op::CloneLate(norm_slot(*s, hlen)),
            other => other.clone(),
        }
    }
}

/// Reference to a strong handle: a program slot, or the k-th handle stored in an object's value.
#[derive(Clone, Copy, PartialEq, Eq, Debug, Hash)]
pub enum HRef {
    P(usize),
    S(ObjId, usize),
}

/// Reference to a Weak handle.
#[derive(Clone, Copy, PartialEq, Eq, Debug, Hash)]
pub enum WRef {
    P(usize),
    S(ObjId, usize),
}

#[derive(Clone, Copy, PartialEq, Eq, Debug, Hash)]
pub enum When {
    /// before the value releases its own handles
    Pre,
    /// after the value released its strong handles, before its weak handles
    Post,
}

#[derive(Clone, PartialEq, Eq, Debug, Hash)]
pub enum Op {
    New,
    /// create through another constructor: 1 From<T>, 2 From<Box<T>>, 3 new_uninit + assume_init, 4 pin
    NewVia(u8),
    Clone(HRef),
    Drop(usize),
    Store(ObjId, usize),
    Take(ObjId, usize),
    Adopt(HRef, HRef),
    Unadopt(HRef, HRef),
    Downgrade(HRef),
    Upgrade(WRef),
    CloneWeak(WRef),
    DropWeak(usize),
    StoreWeak(ObjId, usize),
    TakeWeak(ObjId, usize),
    WeakNew,
    /// Weak::into_raw + Weak::from_raw round trip (as_ptr must agree)
    WeakRawRound(usize),
    // consuming APIs (C12)
    TryUnwrap(usize),
    MakeMut(usize),
    /// make_mut applied in place to the k-th handle stored in an object's value
    MakeMutIn(ObjId, usize),
    GetMut(usize),
    RawRound(usize),
    IncStrong(HRef),
    DecStrong(usize),
    // destructor scripting (C10, C11, C16)
    Script(ObjId, When, Box<Op>),
    Panic,
    /// clone own stored handle k even though its target is dead, then print AFTER-CLONE (C16)
    CloneDead(usize),
    /// inside a destructor: `clone_from` own stored handle k (target already destroyed) from another
    /// own stored handle to the same destroyed target (from a fresh live handle if there is none)
    CloneFromDead(usize),
    /// drop own stored handle k whose target is dead (C16, drop-only variant)
    DropDead(usize),
    /// inside a destructor: downgrade own stored handle k (its target may be a dying peer or the
    /// dying object itself) and let the Weak escape to the program (C05)
    DowngradeOwn(usize),
    /// mark an object: cloning its value (make_mut) does not copy the handles it stores
    Shallow(ObjId),
    /// mark an object: its destructor releases its stored handles through
    /// Rc::into_raw + Rc::decrement_strong_count instead of dropping them
    RawRelease(ObjId),
    /// arm the value of the object: its next `Clone::clone` (inside make_mut) panics
    CloneBomb(ObjId),
    /// arm the value of the object: its next `Clone::clone` drops the program's other handles to it
    CloneEvict(ObjId),
    /// inside a destructor: move own stored handle k out to a program slot (it escapes the teardown)
    EscapeOwn(usize),
    /// clone a program-held handle whose target is already destroyed, then print AFTER-CLONE (C16)
    CloneLate(usize),
    /// no-op marker
    Nop,
}

impl fmt::Display for HRef {
    fn fmt(&self, f: &mut fmt::Formatter<'_>) -> fmt::Result {
        match self {
            HRef::P(s) => write!(f, "p{}", fmt_slot(*s)),
            HRef::S(o, k) => write!(f, "s{}.{}", o, k),
        }
    }
}

pub fn fmt_slot(s: usize) -> String {
    if s >= REL {
        format!("^{}", s - REL)
    } else {
        s.to_string()
    }
}

fn parse_slot(s: &str) -> Option<usize> {
    if let Some(r) = s.strip_prefix('^') {
        r.parse::<usize>().ok().map(|k| REL + k)
    } else {
        s.parse().ok()
    }
}

impl fmt::Display for WRef {
    fn fmt(&self, f: &mut fmt::Formatter<'_>) -> fmt::Result {
        match self {
            WRef::P(s) => write!(f, "p{}", fmt_slot(*s)),
            WRef::S(o, k) => write!(f, "s{}.{}", o, k),
        }
    }
}

impl fmt::Display for Op {
    fn fmt(&self, f: &mut fmt::Formatter<'_>) -> fmt::Result {
        match self {
            Op::New => write!(f, "new"),
            Op::NewVia(k) => write!(f, "newvia:{}", k),
            Op::Clone(h) => write!(f, "clone:{}", h),
            Op::Drop(s) => write!(f, "drop:{}", fmt_slot(*s)),
            Op::Store(o, s) => write!(f, "store:{}:{}", o, fmt_slot(*s)),
            Op::Take(o, k) => write!(f, "take:{}:{}", o, k),
            Op::Adopt(a, b) => write!(f, "adopt:{}:{}", a, b),
            Op::Unadopt(a, b) => write!(f, "unadopt:{}:{}", a, b),
            Op::Downgrade(h) => write!(f, "downgrade:{}", h),
            Op::Upgrade(w) => write!(f, "upgrade:{}", w),
            Op::CloneWeak(w) => write!(f, "wclone:{}", w),
            Op::DropWeak(s) => write!(f, "wdrop:{}", fmt_slot(*s)),
            Op::StoreWeak(o, s) => write!(f, "wstore:{}:{}", o, fmt_slot(*s)),
            Op::TakeWeak(o, k) => write!(f, "wtake:{}:{}", o, k),
            Op::WeakNew => write!(f, "wnew"),
            Op::WeakRawRound(s) => write!(f, "wrawround:{}", fmt_slot(*s)),
            Op::TryUnwrap(s) => write!(f, "tryunwrap:{}", fmt_slot(*s)),
            Op::MakeMut(s) => write!(f, "makemut:{}", fmt_slot(*s)),
            Op::MakeMutIn(o, k) => write!(f, "makemutin:{}:{}", o, k),
            Op::GetMut(s) => write!(f, "getmut:{}", fmt_slot(*s)),
            Op::RawRound(s) => write!(f, "rawround:{}", fmt_slot(*s)),
            Op::IncStrong(h) => write!(f, "incstrong:{}", h),
            Op::DecStrong(s) => write!(f, "decstrong:{}", fmt_slot(*s)),
            Op::Script(o, w, op) => write!(
                f,
                "script:{}:{}:[{}]",
                o,
                match w {
                    When::Pre => "pre",
                    When::Post => "post",
                },
                op
            ),
            Op::Panic => write!(f, "panic"),
            Op::CloneDead(k) => write!(f, "clonedead:{}", k),
            Op::CloneFromDead(k) => write!(f, "clonefromdead:{}", k),
            Op::DropDead(k) => write!(f, "dropdead:{}", k),
            Op::DowngradeOwn(k) => write!(f, "downgradeown:{}", k),
            Op::Shallow(o) => write!(f, "shallow:{}", o),
            Op::RawRelease(o) => write!(f, "rawrelease:{}", o),
            Op::CloneBomb(o) => write!(f, "clonebomb:{}", o),
            Op::CloneEvict(o) => write!(f, "cloneevict:{}", o),
            Op::EscapeOwn(k) => write!(f, "escapeown:{}", k),
            Op::CloneLate(s) => write!(f, "clonelate:{}", fmt_slot(*s)),
            Op::Nop => write!(f, "nop"),
        }
    }
}

fn parse_href(s: &str) -> Option<HRef> {
    if let Some(r) = s.strip_prefix('p') {
        return parse_slot(r).map(HRef::P);
    }
    if let Some(r) = s.strip_prefix('s') {
        let (o, k) = r.split_once('.')?;
        return Some(HRef::S(o.parse().ok()?, k.parse().ok()?));
    }
    None
}
fn parse_wref(s: &str) -> Option<WRef> {
    match parse_href(s)? {
        HRef::P(x) => Some(WRef::P(x)),
        HRef::S(o, k) => Some(WRef::S(o, k)),
    }
}

pub fn parse_op(s: &str) -> Option<Op> {
    let s = s.trim();
    if let Some(rest) = s.strip_prefix("script:") {
        // script:<o>:<when>:[<op>]
        let (o, rest) = rest.split_once(':')?;
        let (w, rest) = rest.split_once(':')?;
        let inner = rest.strip_prefix('[')?.strip_suffix(']')?;
        let when = match w {
            "pre" => When::Pre,
            "post" => When::Post,
            _ => return None,
        };
        return Some(Op::Script(o.parse().ok()?, when, Box::new(parse_op(inner)?)));
    }
    let parts: Vec<&str> = s.split(':').collect();
    let u = |i: usize| -> Option<usize> { parse_slot(parts.get(i)?) };
    let o = |i: usize| -> Option<ObjId> { parts.get(i)?.parse().ok() };
    let h = |i: usize| -> Option<HRef> { parse_href(parts.get(i)?) };
    let w = |i: usize| -> Option<WRef> { parse_wref(parts.get(i)?) };
    Some(match parts[0] {
        "new" => Op::New,
        "newvia" => Op::NewVia(u(1)? as u8),
        "clone" => Op::Clone(h(1)?),
        "drop" => Op::Drop(u(1)?),
        "store" => Op::Store(o(1)?, u(2)?),
        "take" => Op::Take(o(1)?, u(2)?),
        "adopt" => Op::Adopt(h(1)?, h(2)?),
        "unadopt" => Op::Unadopt(h(1)?, h(2)?),
        "downgrade" => Op::Downgrade(h(1)?),
        "upgrade" => Op::Upgrade(w(1)?),
        "wclone" => Op::CloneWeak(w(1)?),
        "wdrop" => Op::DropWeak(u(1)?),
        "wstore" => Op::StoreWeak(o(1)?, u(2)?),
        "wtake" => Op::TakeWeak(o(1)?, u(2)?),
        "wnew" => Op::WeakNew,
        "wrawround" => Op::WeakRawRound(u(1)?),
        "tryunwrap" => Op::TryUnwrap(u(1)?),
        "makemut" => Op::MakeMut(u(1)?),
        "makemutin" => Op::MakeMutIn(o(1)?, u(2)?),
        "getmut" => Op::GetMut(u(1)?),
        "rawround" => Op::RawRound(u(1)?),
        "incstrong" => Op::IncStrong(h(1)?),
        "decstrong" => Op::DecStrong(u(1)?),
        "panic" => Op::Panic,
        "clonedead" => Op::CloneDead(u(1)?),
        "clonefromdead" => Op::CloneFromDead(u(1)?),
        "dropdead" => Op::DropDead(u(1)?),
        "downgradeown" => Op::DowngradeOwn(u(1)?),
        "shallow" => Op::Shallow(o(1)?),
        "rawrelease" => Op::RawRelease(o(1)?),
        "clonebomb" => Op::CloneBomb(o(1)?),
        "cloneevict" => Op::CloneEvict(o(1)?),
        "escapeown" => Op::EscapeOwn(u(1)?),
        "clonelate" => Op::CloneLate(u(1)?),
        "nop" => Op::Nop,
        _ => return None,
    })
}

pub fn ops_to_string(ops: &[Op]) -> String {
    let mut s = String::new();
    for (i, op) in ops.iter().enumerate() {
        if i > 0 {
            s.push(' ');
        }
        s.push_str(&op.to_string());
    }
    s
}

pub fn parse_ops(s: &str) -> Option<Vec<Op>> {
    // scripts contain no spaces inside brackets, so whitespace splitting is fine
    s.split_whitespace().map(parse_op).collect()
}
