//! Small deterministic PRNG (splitmix64 seeding + xoshiro256**).

#[derive(Clone, Debug)]
pub struct Rng {
    s: [u64; 4],
}

fn splitmix(x: &mut u64) -> u64 {
    *x = x.wrapping_add(0x9E37_79B9_7F4A_7C15);
    let mut z = *x;
    z = (z ^ (z >> 30)).wrapping_mul(0xBF58_476D_1CE4_E5B9);
    z = (z ^ (z >> 27)).wrapping_mul(0x94D0_49BB_1331_11EB);
    z ^ (z >> 31)
}

pub fn mix(a: u64, b: u64) -> u64 {
    let mut x = a ^ b.rotate_left(32) ^ 0xD6E8_FEB8_6659_FD93;
    splitmix(&mut x)
}

impl Rng {
    pub fn new(seed: u64) -> Self {
        let mut x = seed;
        let s = [splitmix(&mut x), splitmix(&mut x), splitmix(&mut x), splitmix(&mut x)];
        Rng { s }
    }
    pub fn next(&mut self) -> u64 {
        let r = self.s[1].wrapping_mul(5).rotate_left(7).wrapping_mul(9);
        let t = self.s[1] << 17;
        self.s[2] ^= self.s[0];
        self.s[3] ^= self.s[1];
        self.s[1] ^= self.s[2];
        self.s[0] ^= self.s[3];
        self.s[2] ^= t;
        self.s[3] = self.s[3].rotate_left(45);
        r
    }
    /// uniform in 0..n (n > 0)
    pub fn below(&mut self, n: usize) -> usize {
        (self.next() % (n as u64)) as usize
    }
    pub fn chance(&mut self, num: u32, den: u32) -> bool {
        (self.next() % den as u64) < num as u64
    }
    pub fn pick<'a, T>(&mut self, v: &'a [T]) -> Option<&'a T> {
        if v.is_empty() {
            None
        } else {
            Some(&v[self.below(v.len())])
        }
    }
    pub fn shuffle<T>(&mut self, v: &mut [T]) {
        for i in (1..v.len()).rev() {
            let j = self.below(i + 1);
            v.swap(i, j);
        }
    }
}
