//! Runs one history against the real crate under the monitor and collects the verdict.

use crate::alloc;
use crate::exec;
use crate::gen::Teardown;
use crate::ops::Op;
use crate::world::{self, Cfg, Class, Stats, Violation, World};

#[derive(Clone, Debug)]
pub struct HistCfg {
    pub class: Class,
    pub alloc_mode: u8,
    pub layout_seed: u64,
    pub teardown: bool,
    pub check_links: bool,
    pub check_mem: bool,
    pub value_offset: usize,
    pub hard_exit: bool,
    pub light: bool,
    pub sweep_every: usize,
    pub allow_stale: bool,
}

#[derive(Clone, Debug, Default)]
pub struct Paths {
    pub traces: u64,
    pub pops: u64,
    pub expansions: u64,
    pub entries: u64,
    pub dead_handle: u64,
    pub plain: u64,
    pub with_adoptions: u64,
    pub group: u64,
    pub group_members: u64,
}

impl Paths {
    pub fn snapshot() -> Paths {
        let c = cactusref::verif::counters();
        Paths {
            traces: c[0].1 as u64,
            pops: c[1].1 as u64,
            expansions: c[2].1 as u64,
            entries: c[3].1 as u64,
            dead_handle: c[4].1 as u64,
            plain: c[5].1 as u64,
            with_adoptions: c[6].1 as u64,
            group: c[7].1 as u64,
            group_members: c[8].1 as u64,
        }
    }
    pub fn minus(&self, o: &Paths) -> Paths {
        Paths {
            traces: self.traces - o.traces,
            pops: self.pops - o.pops,
            expansions: self.expansions - o.expansions,
            entries: self.entries - o.entries,
            dead_handle: self.dead_handle - o.dead_handle,
            plain: self.plain - o.plain,
            with_adoptions: self.with_adoptions - o.with_adoptions,
            group: self.group - o.group,
            group_members: self.group_members - o.group_members,
        }
    }
    pub fn add(&mut self, o: &Paths) {
        self.traces += o.traces;
        self.pops += o.pops;
        self.expansions += o.expansions;
        self.entries += o.entries;
        self.dead_handle += o.dead_handle;
        self.plain += o.plain;
        self.with_adoptions += o.with_adoptions;
        self.group += o.group;
        self.group_members += o.group_members;
    }
}

pub struct HistResult {
    pub violations: Vec<Violation>,
    pub inconclusive: Option<String>,
    pub ops: Vec<Op>,
    pub stats: Stats,
    pub paths: Paths,
    pub digest: u64,
    pub layout_digest: u64,
    pub distinct_orders_max: usize,
    pub tables_multi: usize,
    pub log: Vec<String>,
    pub objects: usize,
    pub all_dead: bool,
}

/// Measure the offset of the value inside its allocation (needs MonAlloc).
pub fn measure_value_offset() -> usize {
    if !alloc::ENABLED {
        return usize::MAX;
    }
    // same alignment as the payload type => same offset of the value inside the allocation
    #[repr(align(16))]
    struct Probe(#[allow(dead_code)] u64);
    assert_eq!(std::mem::align_of::<Probe>(), std::mem::align_of::<crate::node::Node>());
    let prev = alloc::enter_lib();
    let rc = cactusref::Rc::new(Probe(0));
    alloc::restore(prev);
    let (a, s, _) = alloc::last_lib_alloc();
    let p = cactusref::Rc::as_ptr(&rc) as usize;
    let off = if p >= a && p < a + s { p - a } else { usize::MAX };
    drop(rc);
    off
}

pub fn run_history(cfg: &HistCfg, gen: &mut dyn FnMut(&World) -> Option<Op>, max_ops: usize) -> HistResult {
    // fresh world
    world::with(|w| {
        *w = World::new(Cfg { class: cfg.class, check_links: cfg.check_links, check_mem: cfg.check_mem, log_cap: 600, hard_exit: cfg.hard_exit, light: cfg.light, sweep_every: cfg.sweep_every, allow_stale: cfg.allow_stale || cfg.class == Class::Elide });
        w.value_offset = cfg.value_offset;
    });
    alloc::reset_lib_accounting();
    alloc::set_mode(cfg.alloc_mode, cfg.layout_seed);
    let p0 = Paths::snapshot();
    let mut ops: Vec<Op> = Vec::new();
    let mut steps = 0usize;
    loop {
        if steps >= max_ops {
            break;
        }
        let op = world::with(|w| if w.stop { None } else { gen(w) });
        let op = match op {
            Some(o) => o,
            None => break,
        };
        steps += 1;
        let r = exec::step(&op);
        if r.applied {
            ops.push(op);
        } else if cfg.class != Class::Script && cfg.class != Class::Dead {
            // generated histories are valid by construction; an inapplicable op in a replay under a
            // different layout means the histories diverged
            world::with(|w| w.harness_error(format!("operation `{}` not applicable", op)));
        }
    }
    if cfg.teardown {
        let mut td = Teardown::new(cfg.layout_seed ^ 0x7EA2);
        loop {
            let op = world::with(|w| if w.stop { None } else { td.next(w) });
            let op = match op {
                Some(o) => o,
                None => break,
            };
            let r = exec::step(&op);
            if r.applied {
                ops.push(op);
            } else {
                world::with(|w| w.harness_error(format!("teardown operation `{}` not applicable", op)));
            }
        }
        exec::check_mem_final();
    }
    if cfg.sweep_every != 1 && !world::with(|w| w.stop) {
        exec::sweep();
    }
    // end of history
    let stopped = world::with(|w| w.stop);
    let (handles, weaks) = world::with(|w| (std::mem::take(&mut w.handles), std::mem::take(&mut w.weaks)));
    if stopped || !cfg.teardown {
        // state is not trusted (or the history deliberately leaves objects alive): leak
        for h in handles {
            std::mem::forget(h);
        }
        for h in weaks {
            std::mem::forget(h);
        }
    } else {
        // after a complete teardown these are all empty slots
        drop(handles);
        drop(weaks);
    }
    let bad = alloc::end_history();
    let p1 = Paths::snapshot();
    world::with(|w| {
        if bad > 0 && !w.stop {
            w.viol("once", true, format!("allocator: {} released block(s) were written to after release (found at end of history)", bad));
        }
        let c = alloc::counters();
        if c.invalid_frees > 0 && !w.stop {
            w.viol("once", true, format!("allocator: {} invalid or double free(s)", c.invalid_frees));
        }
        let mut distinct_orders_max = 0;
        let mut tables_multi = 0;
        for (_, v) in w.order_seen.iter() {
            tables_multi += 1;
            distinct_orders_max = distinct_orders_max.max(v.len());
        }
        let keep_log = !w.violations.is_empty() || w.inconclusive.is_some();
        HistResult {
            violations: w.violations.clone(),
            inconclusive: w.inconclusive.clone(),
            ops,
            stats: w.stats.clone(),
            paths: p1.minus(&p0),
            digest: w.digest,
            layout_digest: w.stats.table_orders,
            distinct_orders_max,
            tables_multi,
            log: if keep_log { w.fmt_log() } else { vec![] },
            objects: w.objs.len(),
            all_dead: w.objs.iter().all(|o| o.state == world::St::Dead),
        }
    })
}
