//! C15: bounded scaling experiment. Builds one orphanable group of N objects by *moving*
//! handles (so exactly one drop triggers exactly one trace), then drops the single outside handle
//! on a thread with a small fixed stack, and reports the trace counters (hook H3), the maximum
//! destructor nesting depth and the time.

use std::cell::RefCell;
use std::sync::atomic::{AtomicUsize, Ordering::Relaxed};

use cactusref::{Adopt, Rc};

use crate::rng::Rng;

static DEPTH: AtomicUsize = AtomicUsize::new(0);
static MAX_DEPTH: AtomicUsize = AtomicUsize::new(0);
static DROPS: AtomicUsize = AtomicUsize::new(0);

pub struct Big {
    out: RefCell<Vec<Rc<Big>>>,
}

impl Drop for Big {
    fn drop(&mut self) {
        let d = DEPTH.fetch_add(1, Relaxed) + 1;
        if d > MAX_DEPTH.load(Relaxed) {
            MAX_DEPTH.store(d, Relaxed);
        }
        DROPS.fetch_add(1, Relaxed);
        // release the handles while still "inside" the destructor so that nesting is measured
        let v = std::mem::take(&mut *self.out.borrow_mut());
        drop(v);
        DEPTH.fetch_sub(1, Relaxed);
    }
}

pub struct ScaleOut {
    pub n: usize,
    pub pairs: usize,
    pub loopbacks: usize,
    pub edges: usize,
    pub traces: usize,
    pub pops: usize,
    pub expansions: usize,
    pub entries: usize,
    pub group_members: usize,
    pub drops: usize,
    pub max_depth: usize,
    pub build_ms: u128,
    pub collect_ms: u128,
    pub collect_cpu_us: u64,
    pub small_before_cpu_us: u64,
    pub small_after_cpu_us: u64,
    pub small_before_bytes: u64,
    pub small_after_bytes: u64,
}

fn counters() -> [usize; 9] {
    let c = cactusref::verif::counters();
    let mut a = [0usize; 9];
    for i in 0..9 {
        a[i] = c[i].1;
    }
    a
}

/// shape: ring | chords | clique | selfmix
pub fn run(shape: &str, n: usize, seed: u64) -> ScaleOut {
    DEPTH.store(0, Relaxed);
    MAX_DEPTH.store(0, Relaxed);
    DROPS.store(0, Relaxed);
    let t0 = std::time::Instant::now();
    let mut rng = Rng::new(seed);
    let mut hs: Vec<Option<Rc<Big>>> = (0..n).map(|_| Some(Rc::new(Big { out: RefCell::new(Vec::new()) }))).collect();
    let mut pairs = std::collections::HashSet::<(u32, u32)>::new();
    let mut loopbacks = 0usize;
    let mut edges = 0usize;
    // extra edges first (they need clones while every outside handle is still alive)
    let mut extra: Vec<(usize, usize)> = vec![];
    match shape {
        "chords" => {
            for _ in 0..n / 2 {
                extra.push((rng.below(n), rng.below(n)));
            }
        }
        "clique" => {
            for i in 0..n {
                for j in 0..n {
                    if i != j && j != (i + 1) % n {
                        extra.push((i, j));
                    }
                }
            }
        }
        "selfmix" => {
            for i in 0..n {
                if i % 3 == 0 {
                    extra.push((i, i));
                }
            }
        }
        "sharedleaf" => {
            // every ring member (0..n-1) also adopts one shared object (n-1) that adopts nothing
            // itself: it is reached once per adopter but must be expanded only once
            for i in 0..n - 1 {
                extra.push((i, n - 1));
            }
        }
        _ => {}
    }
    for &(o, t) in &extra {
        let owner = hs[o].as_ref().unwrap();
        let c = Rc::clone(hs[t].as_ref().unwrap());
        unsafe { Rc::adopt_unchecked(owner, &c) };
        owner.out.borrow_mut().push(c);
        pairs.insert((o as u32, t as u32));
        edges += 1;
    }
    if shape == "selfmix" {
        // same-handle self adoptions (documented to have no effect; as in the repository's own
        // leak_adopt_self_noop test no extra handle is stored for them)
        for i in 0..n {
            if i % 5 == 1 {
                let owner = hs[i].as_ref().unwrap();
                unsafe { Rc::adopt_unchecked(owner, owner) };
                loopbacks += 1;
            }
        }
    }
    if shape == "hub" {
        // object 0 owns every spoke and every spoke owns object 0: wide and shallow, many
        // objects pending on the worklist at once
        for i in 1..n {
            let hub = hs[0].as_ref().unwrap();
            let spoke = hs[i].as_ref().unwrap();
            unsafe {
                Rc::adopt_unchecked(hub, spoke);
                Rc::adopt_unchecked(spoke, hub);
            }
            pairs.insert((0, i as u32));
            pairs.insert((i as u32, 0));
            edges += 2;
            spoke.out.borrow_mut().push(Rc::clone(hub));
        }
        for i in 1..n {
            let h = hs[i].take().unwrap();
            hs[0].as_ref().unwrap().out.borrow_mut().push(h);
        }
        let build_ms = t0.elapsed().as_millis();
        let x = hs[0].take().unwrap();
        drop(hs);
        let c0 = counters();
        let t1 = std::time::Instant::now();
        let cpu0 = thread_cpu_us();
        drop(x);
        let collect_cpu_us = thread_cpu_us() - cpu0;
        let collect_ms = t1.elapsed().as_millis();
        let c1 = counters();
        return ScaleOut {
            n,
            pairs: pairs.len(),
            loopbacks,
            edges,
            traces: c1[0] - c0[0],
            pops: c1[1] - c0[1],
            expansions: c1[2] - c0[2],
            entries: c1[3] - c0[3],
            group_members: c1[8] - c0[8],
            drops: DROPS.load(Relaxed),
            max_depth: MAX_DEPTH.load(Relaxed),
            build_ms,
            collect_ms,
            collect_cpu_us,
            small_before_cpu_us: 0,
            small_after_cpu_us: 0,
            small_before_bytes: 0,
            small_after_bytes: 0,
        };
    }
    // the shared leaf is not part of the ring; its outside handle goes away now (the members'
    // recorded handles keep it alive)
    let n_all = n;
    let n = if shape == "sharedleaf" { n - 1 } else { n };
    if shape == "sharedleaf" {
        drop(hs[n_all - 1].take());
    }
    // ring edges: record all adoptions while every handle is alive ...
    for i in 0..n {
        let j = (i + 1) % n;
        unsafe { Rc::adopt_unchecked(hs[i].as_ref().unwrap(), hs[j].as_ref().unwrap()) };
        pairs.insert((i as u32, j as u32));
        edges += 1;
    }
    // ... then move the outside handle of i+1 into i; object 0 keeps its outside handle and the
    // last object gets a clone of it
    let h0c = Rc::clone(hs[0].as_ref().unwrap());
    for i in 0..n - 1 {
        let h = hs[i + 1].take().unwrap();
        // the owner is reachable through hs[i] (i = 0) or through the handle just moved into i-1;
        // keep a raw pointer to the value to push into it without creating handles
        let owner: *const Big = if i == 0 { &**hs[0].as_ref().unwrap() as *const Big } else { unsafe { LAST_VALUE } };
        unsafe {
            LAST_VALUE = &*h as *const Big;
            (*owner).out.borrow_mut().push(h);
        }
    }
    unsafe {
        let last: *const Big = if n == 1 { &**hs[0].as_ref().unwrap() as *const Big } else { LAST_VALUE };
        (*last).out.borrow_mut().push(h0c);
    }
    let build_ms = t0.elapsed().as_millis();
    let x = hs[0].take().unwrap();
    drop(hs);
    let c0 = counters();
    let t1 = std::time::Instant::now();
    let cpu0 = thread_cpu_us();
    drop(x);
    let collect_cpu_us = thread_cpu_us() - cpu0;
    let collect_ms = t1.elapsed().as_millis();
    let c1 = counters();
    ScaleOut {
        n: n_all,
        pairs: pairs.len(),
        loopbacks,
        edges,
        traces: c1[0] - c0[0],
        pops: c1[1] - c0[1],
        expansions: c1[2] - c0[2],
        entries: c1[3] - c0[3],
        group_members: c1[8] - c0[8],
        drops: DROPS.load(Relaxed),
        max_depth: MAX_DEPTH.load(Relaxed),
        build_ms,
        collect_ms,
        collect_cpu_us,
        small_before_cpu_us: 0,
        small_after_cpu_us: 0,
        small_before_bytes: 0,
        small_after_bytes: 0,
    }
}

static mut LAST_VALUE: *const Big = std::ptr::null();

#[repr(C)]
struct Timespec {
    tv_sec: i64,
    tv_nsec: i64,
}
#[cfg(not(miri))]
extern "C" {
    fn clock_gettime(clk: i32, ts: *mut Timespec) -> i32;
}

/// CPU time consumed by the calling thread, in microseconds (0 under Miri).
pub fn thread_cpu_us() -> u64 {
    #[cfg(not(miri))]
    unsafe {
        let mut ts = Timespec { tv_sec: 0, tv_nsec: 0 };
        // CLOCK_THREAD_CPUTIME_ID = 3 on Linux
        if clock_gettime(3, &mut ts) == 0 {
            return ts.tv_sec as u64 * 1_000_000 + ts.tv_nsec as u64 / 1000;
        }
    }
    0
}

/// Collect `count` two-object cycles; returns (cpu microseconds, bytes requested from the allocator).
fn small_cycles(count: usize) -> (u64, u64) {
    let b0 = crate::alloc::bypass_bytes();
    let c0 = thread_cpu_us();
    for _ in 0..count {
        let a = Rc::new(Big { out: RefCell::new(Vec::new()) });
        let b = Rc::new(Big { out: RefCell::new(Vec::new()) });
        unsafe {
            Rc::adopt_unchecked(&a, &b);
            Rc::adopt_unchecked(&b, &a);
        }
        a.out.borrow_mut().push(Rc::clone(&b));
        b.out.borrow_mut().push(Rc::clone(&a));
        drop(a);
        drop(b);
    }
    (thread_cpu_us() - c0, crate::alloc::bypass_bytes() - b0)
}

/// "aftermath": the cost of collecting small groups must not depend on how large a group was
/// collected earlier in the same process.
pub fn run_aftermath(n: usize, seed: u64) -> ScaleOut {
    let (cpu_before, bytes_before) = small_cycles(400);
    let mut o = run("ring", n, seed);
    let (cpu_after, bytes_after) = small_cycles(400);
    o.small_before_cpu_us = cpu_before;
    o.small_after_cpu_us = cpu_after;
    o.small_before_bytes = bytes_before;
    o.small_after_bytes = bytes_after;
    o
}

/// "churn": a long-lived two-object cycle whose hub adopts and unadopts `n` short-lived peers, one
/// at a time (the peers stay allocated, so that every one of them has its own address). The cost of
/// a trace through the hub and of finally collecting the cycle must depend on the adoptions that
/// exist, not on the adoptions that were ever made and undone.
pub fn run_churn(n: usize, _seed: u64) -> ScaleOut {
    DEPTH.store(0, Relaxed);
    MAX_DEPTH.store(0, Relaxed);
    DROPS.store(0, Relaxed);
    let t0 = std::time::Instant::now();
    let hub = Rc::new(Big { out: RefCell::new(Vec::new()) });
    let partner = Rc::new(Big { out: RefCell::new(Vec::new()) });
    unsafe {
        Rc::adopt_unchecked(&hub, &partner);
        Rc::adopt_unchecked(&partner, &hub);
    }
    hub.out.borrow_mut().push(Rc::clone(&partner));
    partner.out.borrow_mut().push(Rc::clone(&hub));
    drop(partner);
    // every drop of a second handle to the hub runs one trace (which finds the cycle still held)
    let probe = |hub: &Rc<Big>| -> (u64, usize) {
        let c0 = counters();
        let t = thread_cpu_us();
        for _ in 0..100 {
            drop(Rc::clone(hub));
        }
        (thread_cpu_us() - t, counters()[0] - c0[0])
    };
    let (cpu_before, traces_before) = probe(&hub);
    let mut parked: Vec<Rc<Big>> = Vec::with_capacity(n);
    for _ in 0..n {
        let task = Rc::new(Big { out: RefCell::new(Vec::new()) });
        unsafe {
            Rc::adopt_unchecked(&hub, &task);
        }
        Rc::unadopt(&hub, &task);
        parked.push(task);
    }
    let (cpu_after, traces_after) = probe(&hub);
    let build_ms = t0.elapsed().as_millis();
    let c0 = counters();
    let t1 = std::time::Instant::now();
    let cpu0 = thread_cpu_us();
    drop(hub);
    let collect_cpu_us = thread_cpu_us() - cpu0;
    let collect_ms = t1.elapsed().as_millis();
    let c1 = counters();
    let group_drops = DROPS.load(Relaxed);
    drop(parked);
    ScaleOut {
        n,
        pairs: 2,
        loopbacks: 0,
        edges: 2,
        traces: c1[0] - c0[0],
        pops: c1[1] - c0[1],
        expansions: c1[2] - c0[2],
        entries: c1[3] - c0[3],
        group_members: c1[8] - c0[8],
        drops: group_drops,
        max_depth: MAX_DEPTH.load(Relaxed),
        build_ms,
        collect_ms,
        collect_cpu_us,
        small_before_cpu_us: cpu_before,
        small_after_cpu_us: cpu_after,
        // number of traces the two probes ran (must be 100 each for the comparison to mean anything)
        small_before_bytes: traces_before as u64,
        small_after_bytes: traces_after as u64,
    }
}

pub fn run_on_small_stack(shape: String, n: usize, seed: u64, stack_kib: usize) -> Result<ScaleOut, String> {
    let h = std::thread::Builder::new()
        .stack_size(stack_kib * 1024)
        .spawn(move || match shape.as_str() {
            "aftermath" => run_aftermath(n, seed),
            "churn" => run_churn(n, seed),
            _ => run(&shape, n, seed),
        })
        .map_err(|e| format!("spawn: {}", e))?;
    h.join().map_err(|_| "scale thread panicked".to_string())
}
