//! The reference ledger (model), the event log and the online rule checker.
//!
//! Everything here is independent of cactusref's implementation: it only records what the
//! program did at the API boundary (and what the library called back), and evaluates the rules of
//! DESIGN.md section 4.3 against that.

use std::cell::RefCell;
use std::collections::BTreeMap;

use cactusref::{Rc, Weak};

use crate::alloc;
use crate::node::Node;
use crate::ops::{HRef, ObjId, Op, WRef};

#[derive(Clone, Copy, PartialEq, Eq, Debug)]
pub enum St {
    Alive,
    /// the rules require this object to be destroyed by the operation in flight; the library has
    /// not yet called its destructor
    Condemned,
    Dying,
    Dead,
    /// value moved out to the program by try_unwrap (allocation given up)
    Unwrapped,
}

#[derive(Clone, Copy, PartialEq, Eq, Debug)]
pub enum Class {
    Wf,
    Full,
    Elide,
    NoAdopt,
    Consume,
    Script,
    Panic,
    /// handles to destroyed peers touched inside destructors (C16)
    Dead,
}

impl Class {
    pub fn name(self) -> &'static str {
        match self {
            Class::Wf => "WF",
            Class::Full => "FULL",
            Class::Elide => "ELIDE",
            Class::NoAdopt => "NOADOPT",
            Class::Consume => "CONSUME",
            Class::Script => "SCRIPT",
            Class::Panic => "PANIC",
            Class::Dead => "DEAD",
        }
    }
    pub fn parse(s: &str) -> Option<Class> {
        Some(match s {
            "WF" => Class::Wf,
            "FULL" => Class::Full,
            "ELIDE" => Class::Elide,
            "NOADOPT" => Class::NoAdopt,
            "CONSUME" => Class::Consume,
            "SCRIPT" => Class::Script,
            "PANIC" => Class::Panic,
            "DEAD" => Class::Dead,
            _ => return None,
        })
    }
}

pub struct Obj {
    pub state: St,
    /// address of the value (Rc::as_ptr) recorded at creation
    pub addr: usize,
    /// MonAlloc block (user address, serial) of the allocation
    pub block: Option<(usize, u64)>,
    pub ext: u32,
    pub held: Vec<ObjId>,
    pub wext: u32,
    pub wheld: Vec<Option<ObjId>>,
    /// recorded adoptions self -> target made through two distinct handles
    pub rec: BTreeMap<ObjId, u32>,
    /// recorded self-adoptions made through one and the same handle
    pub looprec: u32,
    pub begins: u32,
    pub ends: u32,
    pub table_used: bool,
    /// object was created by make_mut's clone or is a ghost of a given-up allocation
    pub ghost: bool,
    pub script_len: usize,
}

#[derive(Clone, Debug)]
pub struct Violation {
    pub prop: &'static str,
    pub rule: &'static str,
    pub hard: bool,
    pub msg: String,
    pub event_idx: usize,
    pub op_idx: usize,
    /// known-finding signature (if the violation matches a documented cause predicate)
    pub known_sig: Option<String>,
}

#[derive(Clone, Debug)]
pub enum Ev {
    OpCall(usize, String),
    OpRet(usize, String),
    Begin(ObjId),
    End(ObjId),
    Rel(ObjId, ObjId),
    RelDone(ObjId, ObjId),
    WProbe(ObjId, Option<ObjId>, bool, usize, usize),
    WRel(ObjId, Option<ObjId>),
    ScriptCall(ObjId, String),
    ScriptSkip(ObjId, String),
    Panic(ObjId),
    Note(String),
}

#[derive(Clone, Copy, Default, Debug)]
pub struct CostSnap {
    pub traces: usize,
    pub lib_allocs: usize,
}

pub struct DropCtx {
    pub target: ObjId,
    pub required: Vec<ObjId>,
    pub sync_armed: bool,
    pub c14: Option<CostSnap>,
    /// ELIDE class: the set the documented algorithm would collect when it trusts the recorded
    /// (stale) adoptions, if that set contains a stale pair
    pub elide_pred: Option<Vec<ObjId>>,
}

macro_rules! stats_struct {
    ($($f:ident),* $(,)?) => {
        #[derive(Default, Clone, Debug)]
        pub struct Stats {
            $(pub $f: u64,)*
            pub group_hist: [u64; 9],
        }
        impl Stats {
            pub fn add(&mut self, o: &Stats) {
                let (mg, nd, to) = (self.max_group.max(o.max_group), self.nested_depth_max.max(o.nested_depth_max), self.table_orders ^ o.table_orders);
                $(self.$f = self.$f.wrapping_add(o.$f);)*
                for i in 0..9 { self.group_hist[i] += o.group_hist[i]; }
                self.max_group = mg;
                self.nested_depth_max = nd;
                self.table_orders = to;
            }
            pub fn fields(&self) -> Vec<(&'static str, u64)> {
                vec![$((stringify!($f), self.$f)),*]
            }
        }
    };
}

stats_struct! {
    ops, events, begins, drops_strong, required_groups, required_group_members, max_group,
    nonrequired_destroyed, dead_handle_drops, sweeps, count_obs, weak_obs, links_obs,
    links_entries, upgrades_some, upgrades_none, wprobes, wprobes_dead, wprobes_lenient,
    deref_obs, deref_after_destroy_obs, dead_clones_attempted, dead_drops, weak_escapes, weak_escapes_dead, handle_escapes, c14_obs, c14_after_unadopt_obs, mem_obs, script_actions, script_skips,
    nested_depth_max, panics_scripted, consume_ok, consume_noop, clone_bombs, clone_evictions, elide_takes, table_orders,
}

pub struct Cfg {
    pub class: Class,
    pub check_links: bool,
    pub check_mem: bool,
    pub log_cap: usize,
    /// report and leave the process at the first hard violation (worker mode)
    pub hard_exit: bool,
    /// light monitoring (slow interpreters): no event log, sweep only every `sweep_every` ops
    pub light: bool,
    pub sweep_every: usize,
    /// the history may contain elided unadopts (recorded > stored): class ELIDE, or another class
    /// run with --allow-stale (attribution stays with the class)
    pub allow_stale: bool,
}

pub struct World {
    pub cfg: Cfg,
    pub objs: Vec<Obj>,
    pub handles: Vec<Option<Rc<Node>>>,
    pub htarget: Vec<ObjId>,
    pub weaks: Vec<Option<Weak<Node>>>,
    pub wtarget: Vec<Option<ObjId>>,
    pub log: Vec<Ev>,
    pub ev_count: usize,
    pub violations: Vec<Violation>,
    pub stop: bool,
    pub inconclusive: Option<String>,
    pub drop_stack: Vec<DropCtx>,
    pub dying_stack: Vec<(ObjId, *const Node)>,
    pub stats: Stats,
    pub op_idx: usize,
    pub op_destroyed: Vec<ObjId>,
    pub digest: u64,
    pub panicked: bool,
    pub panic_in_op: bool,
    pub mem_disarmed: bool,
    /// objects for which a temp handle is currently outstanding (upgrade probes)
    pub addr_index: BTreeMap<usize, ObjId>,
    /// distinct table iteration orders observed: (object, sorted key set hash) -> set of order hashes
    pub order_seen: BTreeMap<(ObjId, u64), Vec<u64>>,
    pub last_panic_msg: Option<String>,
    pub ops_applied: Vec<Op>,
    /// the library is destroying objects the rules did not require (legal for unreachable
    /// garbage): nested synchronous-collection verdicts are deferred to the end of the operation
    pub nonrequired_in_flight: bool,
    pub deferred_required: Vec<(ObjId, Vec<ObjId>)>,
    pub makemut_pending: Option<ObjId>,
    pub makemut_cloned: Option<ObjId>,
    /// offset of the value inside its allocation (measured once at start-up)
    pub value_offset: usize,
}

impl Drop for World {
    /// Never run library code from here (thread-local destructors run at process exit, possibly
    /// in the middle of an abandoned history): leak whatever handles are left.
    fn drop(&mut self) {
        for h in self.handles.drain(..) {
            std::mem::forget(h);
        }
        for h in self.weaks.drain(..) {
            std::mem::forget(h);
        }
    }
}

thread_local! {
    static WORLD: RefCell<World> = RefCell::new(World::new(Cfg{class: Class::Wf, check_links: true, check_mem: true, log_cap: 4096, hard_exit: false, light: false, sweep_every: 1, allow_stale: false}));
}

pub fn with<R>(f: impl FnOnce(&mut World) -> R) -> R {
    WORLD.with(|w| f(&mut w.borrow_mut()))
}

pub fn try_with<R>(f: impl FnOnce(&mut World) -> R) -> Option<R> {
    WORLD.with(|w| match w.try_borrow_mut() {
        Ok(mut g) => Some(f(&mut g)),
        Err(_) => None,
    })
}

fn count_of(v: &[ObjId], t: ObjId) -> u32 {
    v.iter().filter(|&&x| x == t).count() as u32
}

pub fn attribute(class: Class, rule: &'static str) -> &'static str {
    let native = match rule {
        "once" => "C02",
        "live" => "C01",
        "sync" => "C03",
        "mem" => "C04",
        "weak" => "C05",
        "count" => "C06",
        "links" => "C08",
        "cost" => "C14",
        "panic" => "C02",
        "deadclone" => "C16",
        _ => "C02",
    };
    match class {
        Class::Script => match rule {
            "links" | "cost" => native,
            _ => "C10",
        },
        Class::Panic => match rule {
            "once" | "live" | "weak" | "panic" | "count" => "C11",
            _ => native,
        },
        Class::Consume => match rule {
            "mem" => native,
            _ => "C12",
        },
        Class::Dead => match rule {
            "mem" | "cost" | "links" => native,
            _ => "C16",
        },
        Class::Elide => match rule {
            "once" | "live" | "panic" => "C13",
            _ => native,
        },
        _ => native,
    }
}

impl World {
    pub fn new(cfg: Cfg) -> World {
        World {
            cfg,
            objs: Vec::new(),
            handles: Vec::new(),
            htarget: Vec::new(),
            weaks: Vec::new(),
            wtarget: Vec::new(),
            log: Vec::new(),
            ev_count: 0,
            violations: Vec::new(),
            stop: false,
            inconclusive: None,
            drop_stack: Vec::new(),
            dying_stack: Vec::new(),
            stats: Stats::default(),
            op_idx: 0,
            op_destroyed: Vec::new(),
            digest: 0,
            panicked: false,
            panic_in_op: false,
            mem_disarmed: false,
            addr_index: BTreeMap::new(),
            order_seen: BTreeMap::new(),
            last_panic_msg: None,
            ops_applied: Vec::new(),
            nonrequired_in_flight: false,
            deferred_required: Vec::new(),
            makemut_pending: None,
            makemut_cloned: None,
            value_offset: 0,
        }
    }

    // ------------------------------------------------------------------ log / violations

    pub fn ev(&mut self, e: Ev) {
        self.ev_count += 1;
        self.stats.events += 1;
        if self.cfg.light {
            return;
        }
        if self.log.len() < self.cfg.log_cap {
            self.log.push(e);
        }
    }

    pub fn viol(&mut self, rule: &'static str, hard: bool, msg: String) {
        self.viol_sig(rule, hard, msg, None);
    }

    pub fn viol_sig(&mut self, rule: &'static str, hard: bool, msg: String, known_sig: Option<String>) {
        if self.stop {
            return; // state after a hard violation is not trusted
        }
        let prop = attribute(self.cfg.class, rule);
        // keep the first violation per (prop, rule)
        if let Some(v) = self.violations.iter_mut().find(|v| v.prop == prop && v.rule == rule) {
            // a soft report followed by a hard one of the same rule: keep the first witness, record
            // that it became a hard fault (a count that is off, then a handle to a destroyed value)
            if hard && !v.hard {
                v.hard = true;
                v.msg = format!("{}; then: {}", v.msg, msg);
            }
        } else {
            self.violations.push(Violation {
                prop,
                rule,
                hard,
                msg,
                event_idx: self.ev_count,
                op_idx: self.op_idx,
                known_sig,
            });
        }
        if hard {
            self.stop = true;
            if self.cfg.hard_exit {
                crate::hard_exit(self);
            }
        }
    }

    pub fn harness_error(&mut self, msg: String) {
        if self.inconclusive.is_none() {
            self.inconclusive = Some(msg);
        }
        self.stop = true;
    }

    // ------------------------------------------------------------------ ledger queries

    fn holder_counts(&self, o: &Obj) -> bool {
        matches!(o.state, St::Alive | St::Condemned | St::Dying)
    }

    pub fn strong(&self, t: ObjId) -> u32 {
        let mut s = self.objs[t as usize].ext;
        for o in &self.objs {
            if self.holder_counts(o) {
                s += count_of(&o.held, t);
            }
        }
        s
    }

    pub fn weak(&self, t: ObjId) -> u32 {
        let mut s = self.objs[t as usize].wext;
        for o in &self.objs {
            if self.holder_counts(o) {
                s += o.wheld.iter().filter(|&&x| x == Some(t)).count() as u32;
            }
        }
        s
    }

    pub fn is_alive(&self, t: ObjId) -> bool {
        self.objs[t as usize].state == St::Alive
    }

    /// objects reachable from program-held strong handles through handles stored in alive values
    pub fn reachable(&self) -> Vec<bool> {
        let n = self.objs.len();
        let mut seen = vec![false; n];
        let mut work: Vec<usize> = Vec::new();
        for (i, o) in self.objs.iter().enumerate() {
            if o.ext > 0 && matches!(o.state, St::Alive | St::Condemned) {
                seen[i] = true;
                work.push(i);
            }
        }
        // handles owned by values whose destructor is currently running still exist, but the
        // program cannot use them any more: they are not roots.
        while let Some(i) = work.pop() {
            let o = &self.objs[i];
            if !matches!(o.state, St::Alive | St::Condemned) {
                continue;
            }
            for &t in &o.held {
                if !seen[t as usize] {
                    seen[t as usize] = true;
                    work.push(t as usize);
                }
            }
        }
        seen
    }

    pub fn rec_of(&self, o: ObjId, t: ObjId) -> u32 {
        self.objs[o as usize].rec.get(&t).copied().unwrap_or(0)
    }

    /// forward closure of `x` over recorded adoptions among alive objects (x included)
    pub fn closure(&self, x: ObjId) -> Vec<ObjId> {
        let mut seen = vec![false; self.objs.len()];
        let mut out = vec![];
        let mut work = vec![x];
        seen[x as usize] = true;
        while let Some(o) = work.pop() {
            out.push(o);
            for (&t, &c) in &self.objs[o as usize].rec {
                if c > 0 && !seen[t as usize] && self.objs[t as usize].state == St::Alive {
                    seen[t as usize] = true;
                    work.push(t);
                }
            }
        }
        out.sort_unstable();
        out
    }

    /// C03 premise: every strong handle to every member is a recorded adoption held by a member
    pub fn orphaned(&self, set: &[ObjId]) -> bool {
        let inset = |x: ObjId| set.binary_search(&x).is_ok();
        for &s in set {
            if self.objs[s as usize].ext != 0 {
                return false;
            }
            for (oi, o) in self.objs.iter().enumerate() {
                if !self.holder_counts(o) {
                    continue;
                }
                let h = count_of(&o.held, s);
                if h == 0 {
                    continue;
                }
                if !inset(oi as ObjId) {
                    return false;
                }
                if h > self.rec_of(oi as ObjId, s) {
                    return false;
                }
            }
        }
        true
    }

    pub fn no_records(&self, t: ObjId) -> bool {
        let o = &self.objs[t as usize];
        if o.looprec != 0 || o.rec.values().any(|&c| c > 0) {
            return false;
        }
        !self.objs.iter().any(|a| a.rec.get(&t).copied().unwrap_or(0) > 0)
    }

    /// is there a pair (o,t) with rec > held that involves a member of `set` (as owner or target)?
    pub fn stale_touching(&self, set: &[ObjId]) -> bool {
        let inset = |x: ObjId| set.binary_search(&x).is_ok();
        for (oi, o) in self.objs.iter().enumerate() {
            for (&t, &c) in &o.rec {
                if c > count_of(&o.held, t) && (inset(oi as ObjId) || inset(t)) {
                    return true;
                }
            }
        }
        false
    }

    /// does an object outside `set` record an adoption of a member of `set`? (with the orphan
    /// premise satisfied such a record is necessarily stale)
    pub fn recorded_by_outsider(&self, set: &[ObjId]) -> bool {
        let inset = |x: ObjId| set.binary_search(&x).is_ok();
        for (oi, o) in self.objs.iter().enumerate() {
            if inset(oi as ObjId) || !self.holder_counts(o) {
                continue;
            }
            for (&t, &c) in &o.rec {
                if c > 0 && inset(t) {
                    return true;
                }
            }
        }
        false
    }

    /// In a history with stale records: is `t` inside a set that the documented algorithm is
    /// about to collect because it trusts a stale record (the known C13 finding is then reported
    /// at that object's destructor start; Weak observations on it before that are not judged)?
    pub fn predicted_by_stale(&self, t: ObjId) -> bool {
        self.cfg.allow_stale && self.drop_stack.iter().any(|c| c.elide_pred.as_ref().map_or(false, |p| p.contains(&t)))
    }

    pub fn wf_holds(&self) -> bool {
        for (oi, o) in self.objs.iter().enumerate() {
            if !matches!(o.state, St::Alive) {
                continue;
            }
            for (&t, &c) in &o.rec {
                if c > count_of(&o.held, t) {
                    return false;
                }
            }
            // same-handle self-adoptions are documented no-ops ("Self-adoptions have no effect";
            // the repository's own tests record them without storing any handle), so they are not
            // held against the well-formedness of a history
            let _ = oi;
        }
        true
    }

    /// What the documented algorithm (trace over recorded adoptions, compare strong counts with
    /// group-owned counts) decides for a drop of a handle to x, evaluated on the ledger.
    fn documented_algorithm(&self, x: ObjId) -> Option<Vec<ObjId>> {
        // keys: forward closure via rec (including stale), plus adopters of visited nodes
        let n = self.objs.len();
        let mut visited = vec![false; n];
        let mut owned: BTreeMap<ObjId, u32> = BTreeMap::new();
        let mut work = vec![x];
        while let Some(o) = work.pop() {
            if visited[o as usize] {
                continue;
            }
            visited[o as usize] = true;
            if self.objs[o as usize].state != St::Alive {
                continue;
            }
            for (&t, &c) in &self.objs[o as usize].rec {
                if c > 0 {
                    *owned.entry(t).or_insert(0) += c;
                    work.push(t);
                }
            }
            for (ai, a) in self.objs.iter().enumerate() {
                if a.rec.get(&o).copied().unwrap_or(0) > 0 {
                    owned.entry(ai as ObjId).or_insert(0);
                }
            }
        }
        if owned.is_empty() {
            return None;
        }
        for (&k, &c) in &owned {
            if self.objs[k as usize].state != St::Alive {
                return None;
            }
            if self.strong(k) > c {
                return None;
            }
        }
        Some(owned.keys().copied().collect())
    }

    // ------------------------------------------------------------------ ledger updates

    pub fn purge_records(&mut self, x: ObjId) {
        self.objs[x as usize].rec.clear();
        self.objs[x as usize].looprec = 0;
        for o in self.objs.iter_mut() {
            o.rec.remove(&x);
        }
    }

    pub fn cost_snap(&self) -> CostSnap {
        let c = cactusref::verif::counters();
        CostSnap { traces: c[0].1, lib_allocs: alloc::counters().lib_allocs }
    }

    /// A strong handle to `t` has just been removed from the ledger (ext or held already
    /// decremented by the caller) and the real handle is about to be dropped.
    pub fn drop_begin(&mut self, t: ObjId) {
        self.stats.drops_strong += 1;
        let mut ctx = DropCtx { target: t, required: vec![], sync_armed: true, c14: None, elide_pred: None };
        if !self.cfg.allow_stale && !self.wf_holds() {
            self.harness_error("generator error: a handle is dropped while more adoptions are recorded than handles are stored".into());
        }
        if self.objs[t as usize].state == St::Alive {
            if self.no_records(t) {
                ctx.c14 = Some(self.cost_snap());
            }
            let mut req: Vec<ObjId> = vec![];
            if self.strong(t) == 0 {
                req.push(t);
            } else {
                let s = self.closure(t);
                if self.orphaned(&s) {
                    req = s;
                }
            }
            if self.cfg.allow_stale {
                if let Some(pred) = self.documented_algorithm(t) {
                    if self.stale_touching(&pred) {
                        ctx.elide_pred = Some(pred);
                    }
                }
                if !req.is_empty() && self.recorded_by_outsider(&req) {
                    // a stale record held by an object outside the set makes that object look
                    // like an external owner: not collecting is the permitted consequence (leak).
                    // Stale records *inside* the set do not block: every real handle is still
                    // explained by a recorded adoption of a member, so the premise of C03 holds.
                    req.clear();
                }
            }
            if !req.is_empty() {
                self.stats.required_groups += 1;
                self.stats.required_group_members += req.len() as u64;
                self.stats.max_group = self.stats.max_group.max(req.len() as u64);
                let b = req.len().min(8);
                self.stats.group_hist[b] += 1;
                for &r in &req {
                    self.objs[r as usize].state = St::Condemned;
                }
                for &r in &req {
                    self.purge_records(r);
                }
            }
            ctx.required = req;
            if self.panic_in_op {
                ctx.sync_armed = false;
            }
        } else {
            self.stats.dead_handle_drops += 1;
        }
        self.drop_stack.push(ctx);
        let d = self.drop_stack.len() as u64;
        if d > self.stats.nested_depth_max {
            self.stats.nested_depth_max = d;
        }
    }

    /// The drop of that handle returned (or unwound).
    pub fn drop_end(&mut self, unwinding: bool) {
        let ctx = match self.drop_stack.pop() {
            Some(c) => c,
            None => {
                self.harness_error("drop_end without drop_begin".into());
                return;
            }
        };
        if let Some(snap) = ctx.c14 {
            self.check_cost(snap, ctx.target, "drop");
        }
        if ctx.sync_armed && !unwinding && !self.panic_in_op {
            if self.nonrequired_in_flight && !self.drop_stack.is_empty() {
                // the library is tearing down a group larger than the rules require; members are
                // destroyed when that teardown reaches them, at the latest when the operation ends
                self.deferred_required.push((ctx.target, ctx.required.clone()));
            } else {
                self.check_sync(ctx.target, &ctx.required);
            }
        }
        if self.drop_stack.is_empty() {
            let d = std::mem::take(&mut self.deferred_required);
            if !unwinding && !self.panic_in_op {
                for (t, req) in d {
                    self.check_sync(t, &req);
                }
            }
            self.nonrequired_in_flight = false;
        }
    }

    fn check_sync(&mut self, target: ObjId, required: &[ObjId]) {
        let missing: Vec<ObjId> = required.iter().copied().filter(|&r| self.objs[r as usize].state != St::Dead).collect();
        if !missing.is_empty() {
            // "upgrade succeeds if and only if the value has not been destroyed": a Weak that calls
            // an object dead whose destructor never ran is a Weak-visible fault of its own
            for &m in &missing {
                if self.objs[m as usize].begins > 0 {
                    continue;
                }
                let mut sc: Option<usize> = None;
                for (s, h) in self.weaks.iter().enumerate() {
                    if let Some(h) = h {
                        if self.wtarget[s] == Some(m) {
                            sc = Some(h.strong_count());
                            break;
                        }
                    }
                }
                if sc == Some(0) {
                    self.viol("weak", false, format!("a Weak reports #{} dead (strong_count 0) although its value has not been destroyed", m));
                }
            }
            self.viol(
                "sync",
                true,
                format!(
                    "drop of a handle to #{} returned but required set {:?} still has undestroyed members {:?}",
                    target, required, missing
                ),
            );
        }
    }

    pub fn check_cost(&mut self, snap: CostSnap, target: ObjId, what: &str) {
        let now = self.cost_snap();
        self.stats.c14_obs += 1;
        if self.objs[target as usize].table_used {
            // the object took part in adoptions earlier and has been fully unadopted since
            self.stats.c14_after_unadopt_obs += 1;
        }
        if now.traces != snap.traces {
            self.viol(
                "cost",
                false,
                format!("{} of a handle to #{} (no recorded adoption) ran {} reachability trace(s)", what, target, now.traces - snap.traces),
            );
        }
        if alloc::ENABLED && now.lib_allocs != snap.lib_allocs {
            self.viol(
                "cost",
                false,
                format!(
                    "{} of a handle to #{} (no recorded adoption) performed {} heap allocation(s) inside the library",
                    what,
                    target,
                    now.lib_allocs - snap.lib_allocs
                ),
            );
        }
    }

    /// The library called the destructor of a value. Returns false if the value must not be
    /// touched (corrupt or destroyed twice).
    pub fn on_begin(&mut self, id: u32, canary_ok: bool, ptr: *const Node) -> bool {
        // any work from here on is done on behalf of user code: close pending cost windows
        let snaps: Vec<(CostSnap, ObjId)> =
            self.drop_stack.iter_mut().filter_map(|c| c.c14.take().map(|s| (s, c.target))).collect();
        for (s, t) in snaps {
            self.check_cost(s, t, "drop");
        }
        if !canary_ok || (id as usize) >= self.objs.len() {
            self.ev(Ev::Note(format!("destructor on corrupt value id={} canary_ok={}", id, canary_ok)));
            self.viol("once", true, format!("destructor invoked on a corrupt or already destroyed value (id field {}, canary intact: {})", id, canary_ok));
            return false;
        }
        self.ev(Ev::Begin(id));
        if self.objs[id as usize].begins > 0 {
            self.viol("once", true, format!("destructor of #{} ran a second time", id));
            return false;
        }
        self.objs[id as usize].begins += 1;
        self.stats.begins += 1;
        match self.objs[id as usize].state {
            St::Alive => {
                self.stats.nonrequired_destroyed += 1;
                self.nonrequired_in_flight = true;
                let reach = self.reachable();
                let mut sig = None;
                let mut dangling: Option<usize> = None;
                if self.cfg.allow_stale {
                    // the set the documented algorithm collects when it trusts a stale record
                    let pred: Option<Vec<ObjId>> = self
                        .drop_stack
                        .iter()
                        .rev()
                        .find_map(|c| c.elide_pred.as_ref().filter(|p| p.contains(&id)).cloned());
                    if let Some(p) = &pred {
                        sig = Some("C13:stale-record-trusted-by-orphan-test".to_string());
                        if !reach[id as usize] {
                            // a strong handle that survives outside the destroyed group dangles even
                            // if its owner is currently unreachable (it is touched when that owner is
                            // destroyed or revived through a Weak)
                            for (oi, o) in self.objs.iter().enumerate() {
                                // (owners that are themselves being destroyed still own their
                                // remaining handles and will drop them in a moment)
                                if matches!(o.state, St::Alive | St::Condemned | St::Dying) && !p.contains(&(oi as ObjId)) && count_of(&o.held, id) > 0 {
                                    dangling = Some(oi);
                                }
                            }
                        }
                    }
                }
                if reach[id as usize] || dangling.is_some() {
                    let holders = self.describe_holders(id);
                    let what = if reach[id as usize] {
                        "reachable from program-held handles".to_string()
                    } else {
                        format!("a strong handle to it survives in #{} outside the destroyed group", dangling.unwrap())
                    };
                    self.viol_sig("live", true, format!("#{} destroyed while {} ({})", id, what, holders), sig);
                }
                self.purge_records(id);
            }
            St::Condemned | St::Unwrapped => {}
            St::Dying | St::Dead => {
                self.viol("once", true, format!("destructor of #{} ran in state {:?}", id, self.objs[id as usize].state));
                return false;
            }
        }
        self.objs[id as usize].state = St::Dying;
        self.dying_stack.push((id, ptr));
        self.op_destroyed.push(id);
        if self.cfg.check_links && !self.stop && !self.cfg.light {
            // the dying object must already have vanished from its peers' tables when user code
            // first runs
            crate::exec::check_links(self, true);
        }
        true
    }

    fn describe_holders(&self, id: ObjId) -> String {
        let mut s = format!("ext={}", self.objs[id as usize].ext);
        for (oi, o) in self.objs.iter().enumerate() {
            let c = count_of(&o.held, id);
            if c > 0 {
                s.push_str(&format!(", #{}[{:?}] holds {}", oi, o.state, c));
            }
        }
        s
    }

    pub fn on_end(&mut self, id: u32) {
        self.ev(Ev::End(id));
        if let Some(pos) = self.dying_stack.iter().rposition(|&(d, _)| d == id) {
            self.dying_stack.remove(pos);
        }
        let o = &mut self.objs[id as usize];
        o.ends += 1;
        o.state = St::Dead;
        o.held.clear();
        o.wheld.clear();
    }

    // ------------------------------------------------------------------ handle tables

    pub fn push_handle(&mut self, rc: Rc<Node>, t: ObjId) -> usize {
        self.handles.push(Some(rc));
        self.htarget.push(t);
        self.objs[t as usize].ext += 1;
        self.handles.len() - 1
    }

    pub fn push_weak(&mut self, w: Weak<Node>, t: Option<ObjId>) -> usize {
        self.weaks.push(Some(w));
        self.wtarget.push(t);
        if let Some(t) = t {
            self.objs[t as usize].wext += 1;
        }
        self.weaks.len() - 1
    }

    /// Pointer to the value of an object that the ledger says is alive, or that is currently
    /// running its destructor (then the moved-out value on the dying stack).
    pub fn node_ptr(&self, o: ObjId) -> Option<*const Node> {
        if let Some(&(_, p)) = self.dying_stack.iter().rev().find(|&&(d, _)| d == o) {
            return Some(p);
        }
        let ob = self.objs.get(o as usize)?;
        if ob.state == St::Alive && ob.addr != 0 {
            Some(ob.addr as *const Node)
        } else {
            None
        }
    }

    pub fn href_target(&self, r: HRef) -> Option<ObjId> {
        match r {
            HRef::P(s) => {
                if self.handles.get(s)?.is_some() {
                    Some(self.htarget[s])
                } else {
                    None
                }
            }
            HRef::S(o, k) => {
                self.node_ptr(o)?;
                self.objs[o as usize].held.get(k).copied()
            }
        }
    }

    pub fn wref_target(&self, r: WRef) -> Option<Option<ObjId>> {
        match r {
            WRef::P(s) => {
                if self.weaks.get(s)?.is_some() {
                    Some(self.wtarget[s])
                } else {
                    None
                }
            }
            WRef::S(o, k) => {
                self.node_ptr(o)?;
                self.objs[o as usize].wheld.get(k).copied()
            }
        }
    }

    /// Raw pointer to the handle itself. Valid until the handle table / the owner's vector is
    /// modified; callers use it immediately for a call that cannot run user code.
    pub fn href_ptr(&self, r: HRef) -> Option<*const Rc<Node>> {
        match r {
            HRef::P(s) => self.handles.get(s)?.as_ref().map(|h| h as *const Rc<Node>),
            HRef::S(o, k) => {
                let p = self.node_ptr(o)?;
                let node = unsafe { &*p };
                let v = node.out.try_borrow().ok()?;
                v.get(k).map(|h| h as *const Rc<Node>)
            }
        }
    }

    pub fn wref_ptr(&self, r: WRef) -> Option<*const Weak<Node>> {
        match r {
            WRef::P(s) => self.weaks.get(s)?.as_ref().map(|h| h as *const Weak<Node>),
            WRef::S(o, k) => {
                let p = self.node_ptr(o)?;
                let node = unsafe { &*p };
                let v = node.weaks.try_borrow().ok()?;
                v.get(k).map(|h| h as *const Weak<Node>)
            }
        }
    }

    /// some handle to alive object `x` (program slot first, then stored in an alive value)
    pub fn any_handle_to(&self, x: ObjId) -> Option<HRef> {
        for (s, h) in self.handles.iter().enumerate() {
            if h.is_some() && self.htarget[s] == x {
                return Some(HRef::P(s));
            }
        }
        for (oi, o) in self.objs.iter().enumerate() {
            if o.state == St::Alive {
                if let Some(k) = o.held.iter().position(|&t| t == x) {
                    return Some(HRef::S(oi as ObjId, k));
                }
            }
        }
        None
    }

    pub fn new_obj(&mut self, addr: usize, block: Option<(usize, u64)>) -> ObjId {
        let id = self.objs.len() as ObjId;
        self.objs.push(Obj {
            state: St::Alive,
            addr,
            block,
            ext: 0,
            held: vec![],
            wext: 0,
            wheld: vec![],
            rec: BTreeMap::new(),
            looprec: 0,
            begins: 0,
            ends: 0,
            table_used: false,
            ghost: false,
            script_len: 0,
        });
        self.addr_index.insert(addr, id);
        id
    }

    pub fn next_id(&self) -> ObjId {
        self.objs.len() as ObjId
    }

    pub fn fmt_log(&self) -> Vec<String> {
        self.log.iter().map(|e| format!("{:?}", e)).collect()
    }

    pub fn describe_op(op: &Op) -> String {
        op.to_string()
    }
}
